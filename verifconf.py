"""Per-property configuration of the checks; MANIFEST.json is generated from this table
(./check --manifest)."""
import json, os

BASELINE_OFF = "cd /repo && GOFLAGS=-mod=mod go test -json -vet=off -count=1 -timeout 25m ./..."

COMMON_ASSUME = [
    "rapid v1.3.0 generators and PRNG; the Go toolchain and runtime",
    "the harness oracle (reference model) in /verif/harness/props/<id> is itself correct",
]

PROPS = {}

RUNNER_AUX = [dict(pkg="cmd/runner", out="runner")]
CRASH_ASSUME = COMMON_ASSUME + [
    "kill -9 model: the file system retains every completed system call (no power loss)",
    "strace 6.1 reports every traced system call of every thread with its full data (-f -xx -s 1M); calls of different threads are ordered by completion",
    "the inode model (harness/internal/fsmodel) is validated on every run: its final image must equal the child's real final directory byte for byte, unknown mutating calls abort the run (exit 2)",
]


PROPS["C16"] = dict(
    pkg="props/c16", level="exploration", engine="E-model", design_ref="§4 C16",
    technique="model-based PBT (rapid) against sorted-slice / multiset oracles + exhaustive permutations",
    rule=("cases = skip-list insertion orders (all permutations of <=5 (quick) / <=7 (thorough) keys, then rapid-generated "
          "int/reversed-int/string/bytes key sets) probed at every key and every gap with all bound pairs, and priority-queue "
          "runs over 0..8 ascending inputs with duplicate keys, and insert storms (200 000 inserts into short-lived maps per storm case, about 4e7 inserts per quick run, because node heights are "
          "drawn inside the library and rare heights need millions of draws); non-trivial = skip list with >=2 keys, >=1 absent probe and >=1 "
          "range whose both bounds fall strictly between keys; queue run where an input ran dry while >=3 others were live and "
          "keys repeat across inputs; distinct = distinct case JSON (sha256)"),
    level_text=("Sorted-map and k-way-merge oracles over exhaustively enumerated small insertion orders plus thousands of "
                "generated cases; exploration is the right level because the domain is unbounded and the oracle is exact."),
    level_note="assumes comparator consistency as stated in the property; no duplicate inserts (documented REQUIRES)",
    assumptions=COMMON_ASSUME,
    quick=dict(shards=8, checks=300),
    thorough=dict(shards=16, checks=4000),
)

PROPS["C14"] = dict(
    pkg="props/c14", level="exploration", engine="E-model", design_ref="§4 C14",
    technique="model-based PBT (rapid): call programs against a reference map with tombstones, flush round trip through a real table",
    rule=("case = program of 0..60 (thorough 200) Add/Upsert/Delete/DeleteIfExists/Tombstone/Get/Contains/IsTombstoned/Size/"
          "EstimatedSizeInBytes/iterate calls over <=10 adversarial keys (incl. empty key, 1 KiB key) with nil/empty/patterned values "
          "and occasional nil keys, then Flush or FlushWithTombstones read back through NewSSTableReader; non-trivial = a tombstoned "
          "key was re-added AND an absent key was deleted before the flush; distinct = distinct case JSON"),
    level_text=("Every call result and error is compared with a reference map; the flushed table is read back and compared. "
                "Exploration over generated call programs is the strongest level a call-history quantifier admits."),
    level_note="the size-estimate check only demands 'no wrap below zero / within 2x live bytes + 64' because the property calls it an estimate",
    assumptions=COMMON_ASSUME,
    quick=dict(shards=16, checks=300),
    thorough=dict(shards=16, checks=10000),
)

PROPS["C03"] = dict(
    pkg="props/c03", level="exploration", engine="E-model", design_ref="§4 C03",
    technique="model-based PBT (rapid): generated tables x writer/reader options vs sorted-map oracle, all loaders",
    rule=("case = strictly ascending adversarial key set (0..60, thorough 0..400 keys; empty key, marker bytes, long shared prefixes, "
          "fixed-width 4/20-byte sets for the map loaders, a last key that dominates the index) with nil/empty/patterned values up to "
          "5000 bytes, written by the stream or skip-list writer under generated data/index compression, bloom sizing and write buffer, "
          "then read through 1-3 generated reader configurations (slice, skip-list, map4, map20, disk loader; read buffer; hash-check options) "
          "and probed with every key, its neighbours, below-minimum, above-maximum and all bound pairs; one case in about seven is a lookup storm instead (a table of 3000 or 40000 keys, every key "
          "and an absent neighbour looked up through ONE reader, ascending and then strided, because per-reader lookup state such as the disk index's offset cache only fills up after tens of thousands of probes); non-trivial = a storm, or >=2 keys, >=1 absent probe "
          "and >=1 range with both bounds strictly inside the key span; distinct = distinct case JSON"),
    level_text=("Contains/Get/Scan/ScanStartingAt/ScanRange are compared in both directions with a sorted map for each generated table and "
                "reader configuration; inputs and configurations are unbounded, so sampled exploration with an exact oracle is the level."),
    level_note="map loaders are only exercised with keys and probes of exactly the mapper width (documented behaviour of MapBytes); comparator is bytes.Compare",
    assumptions=COMMON_ASSUME,
    require_labels=["loader=slice", "loader=skiplist", "loader=disk", "loader=map4", "loader=map20", "writer=simple", "writer=stream", "last-entry-dominates", "range-below-minimum", "lookup-storm"],
    quick=dict(shards=16, checks=60),
    thorough=dict(shards=16, checks=2000, timeout_s=3600),
)

PROPS["C08"] = dict(
    pkg="props/c08", level="exploration", engine="E-model", design_ref="§4 C08",
    technique="model-based PBT (rapid): fold-oldest-to-newest map oracle vs stacked reader / merger, on disk and on slice-backed inputs",
    rule=("case = 1..6 tables over <=13 adversarial keys (incl. the empty key, also handed over as nil the way table readers produce it) with "
          "nil (tombstone) / empty / non-empty values, empty tables and keys present in all tables; kind = stacked reader (Get, Contains, Scan, "
          "ScanStartingAt, ScanRange over all bound pairs; in a third of these a contiguous run of >=2 tables with live values only is first stacked into an inner stacked reader, wrapped with the metadata a table of that content would have, that takes their place) | plain Merge on disjoint inputs | MergeCompact with each provided reduction; level = "
          "real tables on disk (generated options/loaders, merge output written and read back) | slice-backed readers; non-trivial = >=2 tables "
          "sharing a key with different values and a tombstone over a live value or vice versa; distinct = distinct case JSON"),
    level_text=("Results are compared with the latest-wins fold of the inputs in both directions (nothing missing, nothing extra, value of the right key). "
                "Sampled exploration with an exact oracle; inputs are unbounded."),
    level_note="keys whose newest value is empty-but-not-nil may or may not appear in latest-wins scans (the statement is silent); for the skip-tombstones reduction length 0 counts as tombstone as its comment defines",
    assumptions=COMMON_ASSUME,
    require_labels=["empty-key-present", "level=disk", "level=slice", "kind=super", "kind=merge", "kind=compact-latest", "kind=compact-skip", "nested-stack"],
    quick=dict(shards=16, checks=300),
    thorough=dict(shards=16, checks=10000, timeout_s=3600),
)

PROPS["C04"] = dict(
    pkg="props/c04", level="exploration", engine="E-model", design_ref="§4 C04",
    technique="model-based PBT (rapid): generated writer programs (Write/WriteSync/Seek) and reader programs vs list-of-survivors oracle; every SeekNext start offset",
    rule=("case = compression x write buffer {1,7,64,4096,4Mi} x read buffer {1,2,3,4,7,64,4096,4Mi} x {buffered, direct-I/O (buffers 4096/8192/65536; files on a disk file system - /var/tmp or VERIF_SCRATCH_DISK - when there is one, because tmpfs ignores the alignment rules of O_DIRECT), buffered write + direct-I/O read} factory; writer program of "
          "0..14 Write/WriteSync/Seek-back steps over nil/empty/patterned records (lengths around the buffers, 1024 and 4096 +-3, and lengths whose record-header checksum has a boundary-shaped varint; zero/0xff/0x91 fill, "
          "marker-laden, marker+partial header, ending in 0x91 / 0x91 0x8d / full marker) then Close; checks: offsets/Size/file length, sequential read + EOF, "
          "a generated ReadNext/SkipNext program, ReadNextAt at every returned offset, SeekNext from EVERY byte offset 0..size (files <= 8 KiB) or +-4 around every "
          "record boundary and 4096 multiple; non-trivial = >=3 surviving records incl. a nil/empty one and (file larger than the write buffer or a seek-back or a "
          "record crossing a 4096 boundary); distinct = distinct case JSON"),
    level_text=("Round trip through all three access paths against the list of surviving records, with SeekNext enumerated over every start offset of each "
                "generated file. Exploration: the input/program/configuration space is unbounded."),
    level_note="payloads never contain a complete valid record (marker+header with matching CRC32+body) - the format cannot tell that from a record; direct-I/O cases use block-multiple buffers and no Seek (documented experimental limits); whether the scratch file system enforces O_DIRECT alignment is reported by the labels direct-io-on-disk-fs / direct-io-on-tmpfs-only",
    assumptions=COMMON_ASSUME,
    require_labels=["factory=buffered", "factory=direct", "seek-back", "record-crosses-4096", "comp=0", "comp=1", "comp=2", "comp=3"],
    quick=dict(shards=16, checks=100, shrink_s=15),
    thorough=dict(fuzz_s=240, shards=16, checks=3000, timeout_s=5400),
)

PROPS["C12"] = dict(
    pkg="props/c12", level="fault_enumeration", engine="E-pos", design_ref="§4 C12",
    technique="PBT-generated files (rapid) x exhaustive single-fault enumeration: every truncation length, every record-header byte x replacement values, every unsupported file-header class",
    rule=("evaluation = one damaged copy of a generated file (1..12 nil/empty/patterned records, each compression type, write buffer {1,7,64,4096}, read buffer "
          "{1,2,4,7,64,4096}; every second file also gets a zero-filled record whose header checksum is a varint of fewer than five bytes, at a random position) read by the sequential reader and by ReadNextAt at every written offset: (a) every truncation length 0..size, (b) every byte of every record "
          "header set to all 255 other values (files <= 2 KiB) or to bit flips/0x00/0xff/continuation-bit set and cleared/marker bytes (longer files), (c) file-header version in "
          "{0,5,6,255,256,2^31,2^32-1} and compression in {4,5,255,256,2^31,2^32-1}; non-trivial = a cut strictly inside a record or the file header, any header-byte "
          "alteration, any file-header alteration; distinct = (case hash, position, value)"),
    level_text=("For each generated file the single-fault space the property names is enumerated exhaustively (truncations; header bytes x values) and each damaged copy is "
                "judged by the real readers: fault enumeration per object, sampled over objects."),
    level_note="single-byte damage only; header damage must yield 'no record' (error or EOF) for that record and nothing after it; an independent 30-line header decoder locates header bytes",
    assumptions=COMMON_ASSUME + ["files are materialised on tmpfs (/dev/shm) when present"],
    require_labels=["cut:inside-header", "cut:between-header-and-payload", "cut:inside-payload", "cut:inside-compressed-payload", "hdr:marker", "hdr:nilflag", "hdr:usize", "hdr:csize", "hdr:crc", "filehdr:version", "filehdr:compression"],
    quick=dict(shards=16, checks=3, shrink_s=30),
    thorough=dict(fuzz_s=240, shards=16, checks=130, timeout_s=5400),
)

PROPS["C09"] = dict(
    pkg="props/c09", level="fault_enumeration", engine="E-pos", design_ref="§4 C09",
    technique="PBT-generated tables (rapid) x exhaustive data-file damage: every byte x 7 replacement values, every truncation length, adjacent-record swaps; both checking modes",
    rule=("evaluation = one damaged copy of data.rio of a generated table (2..20 adversarial keys; values nil/empty/1..200 bytes incl. leading 0x00 and marker bytes; each data "
          "compression type) opened in one of two modes (verify-on-load default; SkipHashCheckOnLoad+EnableHashCheckOnReads) and read through Get of every key, Scan and ScanRange: "
          "every byte offset x {bit0 flipped, bit7 flipped, 0x00, 0xff, 0x91, 0x8d, 0x4c}, every truncation length, swaps of adjacent equal-length records; all damaged copies are "
          "non-trivial (each differs from the written file); distinct = (case hash, damage, mode)"),
    level_text=("Single-fault damage space of the data file enumerated exhaustively per generated table under both verification modes; the oracle is 'error, or the written value' per key, and a scan may end without error only after the last key."),
    level_note="values written empty/nil are only required to stay empty without compression (zero checksum by format design, as the property states); multi-byte damage limited to truncation and swaps",
    assumptions=COMMON_ASSUME + ["tables are materialised on tmpfs (/dev/shm) when present"],
    require_labels=["byte:file-header", "byte:record-header", "byte:payload", "truncation", "swap", "dcomp=0", "dcomp=1", "dcomp=2", "dcomp=3"],
    quick=dict(shards=16, checks=3, shrink_s=30),
    thorough=dict(fuzz_s=180, shards=16, checks=100, timeout_s=5400),
)

PROPS["C20"] = dict(
    pkg="props/c20", level="exploration", engine="E-model", design_ref="§4 C20",
    technique="differential PBT (rapid): Kaitai-generated reader vs native reader + independent header decoder on generated files",
    rule=("case = file of 0..12 nil/empty/patterned records (up to 5000 bytes) under one of the four compression types and a generated write buffer, in a quarter of the cases followed by a Seek back over the last 1..3 records and 0..2 rewritten records (a rolled-back write); the bytes are parsed with "
          "gokaitai.RecordioV4 and compared with the native reader (count, nil flags) and with the stored payload bytes located by the offsets Write returned and an independent "
          "header decoder; the header's compression code must be one of the constants of the generated package (read with go/parser from the tree); non-trivial = file with >=1 nil, "
          ">=1 empty and >=1 non-empty record; distinct = distinct case JSON"),
    level_text="Differential between two decoders of the same bytes with an exact equality oracle; sampled exploration over record sequences x all four compression types.",
    level_note="'known to the schema' is decided against the generated Go package in the repository, not other Kaitai targets; enum label names are not asserted; besides count, nil flags and payload bytes the decoded header fields (lengths, checksum, magic) are compared with the bytes on disk, since a mis-decoded multi-group integer is a mis-decoded record",
    assumptions=COMMON_ASSUME,
    require_labels=["comp=0", "comp=1", "comp=2", "comp=3", "seek-back-and-rewrite"],
    quick=dict(shards=16, checks=200),
    thorough=dict(fuzz_s=180, shards=16, checks=5000, timeout_s=3600),
)

PROPS["C11"] = dict(
    pkg="props/c11", level="fault_enumeration", engine="E-pos", design_ref="§4 C11", aux_builds=RUNNER_AUX,
    technique="PBT-generated merge inputs (rapid) x exhaustive single-fault injection at every iterator and writer position (+ sampled double faults); system leg: failing table writers and failing write/read/fsync system calls (strace fault injection) inside flush/compaction of a child process",
    rule=("interface leg (5 of 6 cases): one run of Merge / MergeCompact(latest-wins) / MergeCompact(skip-tombstones) over 1..5 generated overlapping inputs per injected fault: input i fails at its j-th Next (every i, every j incl. the "
          "call that would return Done; one-shot and sticky) or the writer fails at its p-th WriteNext (every p; one-shot and sticky), plus up to 6 generated double faults; oracle: fault fired => a non-nil error (or a panic), no fault "
          "fired => nil. System leg (1 of 6): a generated simpledb program runs in a child process in which EITHER the data or index writer of the f-th flush / c-th compaction fails at record position p or at its Close, i.e. the final flush (verif-tag writer-open hook, failure "
          "model of the repository's failingRecordIoWriter) OR a system call fails with EIO/ENOSPC (strace -e inject): the k-th write (k in 1..6) to data.rio / index.rio / bloom.bf.gz / meta.pb.bin of the n-th flushed table or to the n-th log file, or the k-th write (4..120) of whichever thread reaches it; "
          "likewise the k-th read/pread64 of one of those files (compaction inputs, recovery, scans), the k-th fsync (of a log file, or of any thread), and the k-th directory-level call "
          "(mkdirat / renameat / unlinkat / ftruncate / fallocate / linkat, with EIO, ENOSPC or EACCES) of a thread; the injected call families are write,pwrite64,writev,pwritev,pwritev2 / read,pread64,readv,preadv,preadv2 / fsync,fdatasync,sync_file_range; "
          "the child may stop or continue; if a writer fault fired, an operation must have returned an error or the child must have stopped; afterwards the parent opens the directory without faults and its content must equal the map of the acknowledged operations "
          "(operations in flight or answered with an error may or may not have taken effect). non-trivial = the fault fired before the last output record was written (interface) / the fault fired, or with a syscall fault the child stopped or an operation returned an error (system); distinct = (case hash, fault position)"),
    level_text="Every single fault position of every generated merge is enumerated with an exact oracle; the system leg samples fault positions inside real flushes and compactions.",
    level_note="system-leg positions are sampled, not enumerated; compaction output directories have random names (os.MkdirTemp), so the path-targeted system-call faults reach flushed tables and log files, compaction outputs are reached by the writer hook and by the untargeted k-th-write variant (k counts per thread, so which write fails depends on the schedule - the oracle holds for any of them)",
    assumptions=COMMON_ASSUME + ["hooks: sstables.VerifSetWriterOpenHook / VerifWrapWriters (tag verif)"],
    require_labels=["kind=merge", "kind=compact-latest", "kind=compact-skip", "leg=system", "fault-fired", "child-stopped", "leg=system-syscall-fault", "operation-returned-error"],
    expect_labels=["fault-fired-at-close"],
    quick=dict(shards=16, checks=150, shrink_s=5),
    thorough=dict(shards=16, checks=8000, timeout_s=3600),
)

PROPS["C07"] = dict(
    pkg="props/c07", level="fault_enumeration", engine="E-crash", design_ref="§4 C07", aux_builds=RUNNER_AUX,
    technique="model-based PBT (rapid) of Append/AppendSync/Rotate programs vs sequence oracle (in-process, incl. replays of the live log) + the same programs in a child under strace with every system-call boundary replayed",
    rule=("case = WAL program of 0..30 Append/AppendSync/Rotate/replay-now steps over nil/empty/1..200-byte records with maximum file size in {1,16,64,1Ki,1Mi,default}, writer buffer in {8,64,4096,4Mi}, each compression type. "
          "In-process leg (24 of 25 cases): after Close replay = the appended sequence exactly; a replay of the live log = a prefix containing every record up to the last AppendSync/Rotate. Crash leg (1 of 25): the program runs "
          "in the child runner under strace; at EVERY system-call boundary Replay of the image must succeed and deliver a prefix of (returned appends + the in-flight one) containing every record whose AppendSync / Rotate / Close had "
          "returned, and every returned AppendSync must show a write to the log file followed by an fsync of it between its call and return markers. evaluations count cases (in-process) and boundaries (crash leg); non-trivial = "
          ">=2 log files, >=3 records and (a live replay or a record larger than the buffer / limit), crash leg: a tree-changing boundary; distinct = case JSON / (case hash, boundary)"),
    level_text="Crash leg: all kill points of each traced append program are enumerated; in-process leg: sequence-equality oracle over thousands of generated programs and configurations.",
    level_note="a live replay observes exactly the bytes already handed to the kernel, i.e. the kill -9 image of that instant; crash-leg runs are samples of programs",
    assumptions=CRASH_ASSUME,
    require_labels=["live-replay", "record-larger-than-buffer-or-limit", "files=>=5", "leg=crash", "leg=in-process", "sync-append-write-then-fsync-checked", "boundary-inside-rotation-or-multi-write-record"],
    quick=dict(shards=16, checks=200, shrink_s=5),
    thorough=dict(shards=16, checks=5000, timeout_s=5400),
)

PROPS["C15"] = dict(
    pkg="props/c15", level="exploration", engine="E-model", design_ref="§4 C15",
    technique="model-based PBT (rapid): WriteNext programs with unsorted/repeated keys and injected data-/index-append failures (build-tag hook) vs list-of-successes oracle and metadata",
    rule=("case = 0..40 WriteNext calls with mostly-ascending but perturbed keys (repeats, jumps back, empty key, varying lengths) and nil/empty/patterned values, each call tagged "
          "{no fault, data-append fails, index-append fails} through the verif-tag hook VerifWrapWriters (failure model of the repository's failingRecordIoWriter), under generated "
          "compression/bloom/buffer options; oracle: key <= last accepted => error, injected fault => error, after Close scan/Get = the successful writes in order, failed keys absent, "
          "NumRecords/NullValues/MinKey/MaxKey/DataBytes/IndexBytes/TotalBytes truthful; non-trivial = >=1 ordering rejection, >=1 injected failure that is not the last call and >=2 "
          "successes after it; distinct = distinct case JSON"),
    level_text="Reference-list oracle over generated call programs x fault subsets x configurations; exploration because all three quantifiers are unbounded.",
    level_note="the converse 'a strictly greater key without fault is accepted' is not in the statement and only labelled; faults are whole-call failures that do not touch the file (the repository's own test failure model)",
    assumptions=COMMON_ASSUME + ["hook: sstables.VerifWrapWriters (tag verif) substitutes the writers of a stream writer the harness owns"],
    require_labels=["ordering-rejection", "injected-failure"],
    quick=dict(shards=16, checks=300),
    thorough=dict(shards=16, checks=5000, timeout_s=3600),
)

PROPS["C01"] = dict(
    pkg="props/c01", level="exploration", engine="E-model", design_ref="§4 C01",
    technique="model-based stateful PBT (rapid): multi-session Put/Delete/Get programs with hook-placed rotations, flushes and compaction cycles vs map oracle",
    rule=("case = 1..4 sessions on one directory, each with its own generated options (memstore limit 1B..1MiB, compaction threshold 0..4 / max size / ratio, write and read buffers 16B..4MiB, "
          "hook-driven compaction or the real 1 ms ticker) and 0..60 (thorough 150) steps Put/Delete/Get/rotate/wait-for-flusher/compact-once/read-all over a universe of 4..12 adversarial "
          "non-empty keys (prefix chains, 0x00/0xff/marker bytes, 300-byte keys) through both API flavours; every write has a unique value; oracle = map, compared on the touched key after each step, "
          "on the whole universe + 2 never-written keys after every compaction, read-all, reopen and before close; any error or process death is a violation; non-trivial = >=1 flushed table and "
          "(>=1 compaction merging >=2 tables or >=1 reopen) with >=1 live key; distinct = distinct case JSON"),
    level_text="Reference-map oracle over generated operation programs x hook-placed flush/compaction schedules x per-session option combinations.",
    level_note="keys and values are non-empty as the property requires; compaction is driven synchronously through the verif-tag hooks (same code path as the ticker) except in sessions that use the real ticker",
    assumptions=COMMON_ASSUME + ["hooks: simpledb.VerifRotate / VerifWaitFlushIdle / VerifCompactOnce / VerifTables (tag verif)"],
    require_labels=["merged>=2-tables", "reopen", "session-with-real-ticker"],
    expect_labels=["compaction-of-a-strict-subset"],
    quick=dict(shards=16, checks=25, shrink_s=5),
    thorough=dict(shards=16, checks=500, timeout_s=5400),
)

PROPS["C06"] = dict(
    pkg="props/c06", level="exploration", engine="E-model", design_ref="§4 C06",
    technique="model-based PBT (rapid): constructed table lineages x compaction settings drawn relative to measured table sizes; before/after read equality + map oracle + gap-free selection",
    rule=("case = lineage of 2..6 tables built with forced flushes (batches of only-deletes / big values / mixed puts and deletes over 4..12 adversarial keys), then a second session whose "
          "compaction max size is placed relative to the MEASURED table sizes (below the smallest, just above the k-th smallest, huge) with generated ratio {0,.2,.5,.9,1} and file threshold 0..3, "
          "half of the tables confined to a window of <=3 adjacent keys of the sorted universe (disjoint and barely touching key ranges), then 1..8 cycles of compact-once / further flush / reopen; oracle: Get of the whole universe identical immediately before and after every compaction cycle and equal to the map after every "
          "cycle, flush and restart; the selected tables form a gap-free run of the live tables in age order; non-trivial = a cycle merged >=2 tables with >=1 tombstone among the inputs; distinct = case JSON"),
    level_text="Exact before/after and reference-map oracles over generated lineages and settings, so that every selectable subset (incl. runs excluding the oldest table) occurs.",
    level_note="compaction cycles run synchronously through the verif-tag hook VerifCompactOnce (the body of the ticker loop); which slot the merged table takes is not asserted (not in the statement)",
    assumptions=COMMON_ASSUME + ["hooks: simpledb.VerifRotate / VerifWaitFlushIdle / VerifCompactOnce / VerifTables (tag verif)"],
    require_labels=["merged>=2", "merge-with-tombstone-input"],
    expect_labels=["selection-excludes-oldest-with-tombstone"],
    quick=dict(shards=16, checks=150, shrink_s=5),
    thorough=dict(shards=16, checks=800, timeout_s=5400),
)

PROPS["C17"] = dict(
    pkg="props/c17", level="exploration", engine="E-model", design_ref="§4 C17", aux_builds=RUNNER_AUX,
    technique="differential + model-based PBT (rapid): the same abstract program through the string and the byte API; map oracle at every observation point; crash images after rejected calls via the E-crash engine",
    rule=("case = 1..40 steps Put/Delete/Get/rotate+flush/restart over keys incl. nil, empty, non-UTF-8 and 300-byte keys and values incl. nil, empty, 1..300 bytes and 64 KiB. In-process leg (14 of 15 cases): executed once through "
          "Put/Delete/Get and once through PutBytes/DeleteBytes/GetBytes; oracle: (a) same accept/reject/not-found outcome and value per step in both flavours, (b) empty/nil key or value => error, (c) a call that returned an error "
          "leaves the whole universe equal to the map, observed directly after every write, after rotate+flush and after a clean restart. Crash leg (1 of 15, <=16 steps): the byte-API program runs in the child runner under strace and "
          "every system-call boundary (in particular those after a rejected call) must recover to the map of the acknowledged calls (C02 oracle). non-trivial = a rejected call followed by an accepted write, a flush and a restart "
          "(in-process) / a boundary inside a multi-call protocol (crash leg); distinct = case JSON / (case hash, boundary)"),
    level_text="Differential and reference-map oracles over generated programs mixing rejected and accepted calls, at all four observation points the property names.",
    level_note="the string flavour cannot express nil, so nil is mapped to the empty string there; which error value a flavour uses to reject is not asserted",
    assumptions=CRASH_ASSUME + ["hooks: simpledb.VerifRotate / VerifWaitFlushIdle (tag verif)"],
    require_labels=["rejected-call", "leg=crash", "crash-images-after-a-rejected-call"],
    quick=dict(shards=16, checks=60, shrink_s=5),
    thorough=dict(shards=16, checks=2000, timeout_s=5400),
)

PROPS["C19"] = dict(
    pkg="props/c19", level="exploration", engine="E-model", design_ref="§4 C19",
    technique="stateful PBT (rapid) with resource accounting: /proc/self/fd links and /proc/self/maps lines below the case directory, goroutine stacks with library frames",
    rule=("case = (a) database program of 10..40 (thorough 60) rotate+flush cycles with puts/deletes, hook-driven compaction cycles or the real 1 ms ticker and clean reopen cycles: at every quiescent point "
          "descriptors+mappings below the directory <= 2*live tables+4, after every Close exactly 0 and no goroutine with a go-sstables frame, directory removable and reusable; (b) table reader program "
          "(slice/skip-list/disk/map loaders) of Get, complete and abandoned Scan / ScanRange / ScanStartingAt, then Close => 0 held; (c) RecordIO writer, sequential reader closed mid-file, mmap reader => 0 held; "
          "(d) WAL appender with rotations and a replay cut short by its callback => 0 held; non-trivial = (a) >=10 cycles with >=3 merging compactions or the ticker, (b) an abandoned scan, (c) reader closed mid-file, "
          "(d) >=2 log files; distinct = distinct case JSON"),
    level_text="Resource counts are read from the kernel's view of the process at generated quiescent points and after every Close; the linear bound makes any per-cycle leak exceed it within the generated cycle counts.",
    level_note="transient peaks inside a compaction are not bounded by the property and not asserted; goroutines on their way out get up to 2 s to disappear (a leaked goroutine never does)",
    assumptions=COMMON_ASSUME + ["Linux /proc; hooks simpledb.Verif* (tag verif)"],
    require_labels=["kind=db", "kind=table", "kind=recordio", "kind=wal", "db-with-ticker", "compactions=>=3"],
    quick=dict(shards=16, checks=20, shrink_s=5),
    thorough=dict(shards=16, checks=400, timeout_s=5400),
)

PROPS["C02"] = dict(
    pkg="props/c02", level="fault_enumeration", engine="E-crash", design_ref="§4 C02", aux_builds=RUNNER_AUX,
    technique="PBT-generated workloads (rapid) run in a child under strace; EVERY system-call boundary of the run becomes a crash image (inode model) that the real recovery code must open to the acknowledged state",
    rule=("programs write hot keys (3..8, rewritten and deleted all the time) and up to 12 cold keys (each written by exactly one Put, so every table and log file holds something nothing else shadows); evaluation = one distinct (crash image, acknowledgement state) of a traced run: programs of 1..2 sessions x 6..30 Put/Delete/rotate/compact-once steps over <=8 adversarial keys with the synchronous WAL, memstore limit "
          "64..512 B, write buffer {16,64,4Mi}, compaction threshold 0..2 / max size / ratio, deterministic mode (flusher awaited after each step, hook-driven compaction) or free mode (real 1 ms ticker, un-awaited flushes), "
          "optionally ending without Close; every boundary between two system calls of any thread is materialised and recovered in-process by simpledb.Open: Open must succeed, the key universe must read as the map of the "
          "acknowledged operations (each in-flight operation present or absent), and Close+Open again must give the same content; non-trivial = boundary inside a multi-call protocol (WAL rotation, flush, compaction write/install, "
          "recovery, shutdown), i.e. not between two operations and not a plain WAL append; distinct = (case hash, boundary sequence number)"),
    level_text="All crash points of each traced run are enumerated (exhaustive per run); runs are sampled over programs x options x schedules.",
    level_note="boundaries are exhaustive per traced run, runs are samples; power-loss behaviour (unsynced data lost) is outside the stated model",
    assumptions=CRASH_ASSUME,
    require_labels=["win:wal-rotation", "win:flush", "win:compaction-write", "win:compaction-install", "win:recovery", "win:shutdown"],
    quick=dict(shards=16, checks=2, shrink_s=1, env=dict(VERIF_SHRINK_S=20)),
    thorough=dict(shards=16, checks=25, shrink_s=1, timeout_s=7200, env=dict(VERIF_SHRINK_S=60)),
)

PROPS["C13"] = dict(
    pkg="props/c13", level="fault_enumeration", engine="E-crash", design_ref="§4 C13", aux_builds=RUNNER_AUX,
    technique="PBT-generated async-WAL workloads (rapid) under strace; every system-call boundary is a crash image whose recovered content must equal a prefix model",
    rule=("evaluation = one distinct (crash image, acknowledgement state) of a traced run with EnableAsyncWAL: small programs (as C02, memstore limit 256 B..16 MiB) and large programs (>= 4.7 MiB of incompressible "
          "64..256 KiB values so that the 4 MiB WAL buffer is flushed in the middle of records); oracle per boundary: Open succeeds (twice, same content) and the content equals the map after the first p operations of "
          "(acknowledged operations + the in-flight one) for some p >= the number of operations acknowledged before the last completed WAL rotation / clean Close / completed Open; non-trivial = boundary inside a multi-call "
          "protocol (rotation, flush, compaction, recovery, shutdown); distinct = (case hash, boundary sequence number)"),
    level_text="All crash points of each traced run are enumerated; the oracle is equality with some prefix model (no holes, no reordering) with a lower bound on the prefix.",
    level_note="a rotation counts as completed when the next numbered WAL file has been created (the previous one was flushed and closed before); runs are samples of programs x schedules",
    assumptions=CRASH_ASSUME,
    require_labels=["win:wal-rotation", "win:flush", "small-program", "large-program-over-4MiB-of-log"],
    quick=dict(shards=16, checks=2, shrink_s=1, env=dict(VERIF_SHRINK_S=20)),
    thorough=dict(shards=16, checks=20, shrink_s=1, timeout_s=7200, env=dict(VERIF_SHRINK_S=60), require_labels=["win:wal-rotation", "win:flush", "small-program", "large-program-over-4MiB-of-log", "lost-suffix-of-acknowledged-writes"]),
)

PROPS["C10"] = dict(
    pkg="props/c10", level="fault_enumeration", engine="E-crash", design_ref="§4 C10", aux_builds=RUNNER_AUX,
    technique="nested crash-image enumeration: PBT-generated workloads (rapid) under strace give starting images; a traced recovery of each gives depth-2 (and sampled depth-3) images; all must recover to the uninterrupted outcome",
    rule=("evaluation = one nested crash image: a generated workload (as C02/C13, sync or async WAL) is traced; among its distinct crash images those in which recovery has work to do (WAL records, >=2 WAL files, a compaction directory "
          "with or without success flag) are picked (4 per case, thorough 12); for each, `runner recover` (Open+Close) is traced starting from that image and EVERY boundary inside Open is materialised, plus, for every run of "
          "sibling unlinks issued by one os.RemoveAll, every proper subset of the run removed (all directory listing orders); sampled nested images are crashed a third time; oracle: the next Open succeeds (twice, same content) "
          "and yields exactly the key->value state of the uninterrupted recovery of the starting image; runs on tmpfs and on the disk file system; all nested images are non-trivial (each lies strictly inside Open); "
          "distinct = (case hash, starting boundary, depth, nested boundary / removed subset)"),
    level_text="Exhaustive enumeration of the kill points inside each traced recovery (depth 2), sampled depth 3, all listing orders of data-independent unlink runs; starting images are sampled.",
    level_note="starting images whose uninterrupted recovery already fails are judged by C02/C13 and skipped here (counted as a label)",
    assumptions=CRASH_ASSUME + ["every permutation of the unlinks one os.RemoveAll issues inside a directory is a feasible execution on some file system"],
    require_labels=["nested-depth2:replay-flush", "nested-depth2:wal-removal", "nested-depth2:repair-compactions", "nested-depth3:replay-flush"],
    expect_labels=["nested:unlink-order-permutation"],
    quick=dict(shards=16, checks=3, shrink_s=1, env=dict(VERIF_SHRINK_S=30)),
    thorough=dict(shards=16, checks=12, shrink_s=1, timeout_s=7200, env=dict(VERIF_SHRINK_S=90)),
)

PROPS["C05"] = dict(
    pkg="props/c05", level="exploration", engine="E-conc", design_ref="§4 C05",
    technique="concurrent history generation (rapid) with gated flush/compaction schedules (verif-tag writer-open hook) + porcupine linearizability check against a per-key register model",
    rule=("case = 2..6 client goroutines x 10..60 (thorough 120) Get/Put/Delete over 1..4 hot keys (rewritten constantly) and 1..3 cold keys (written once, then only read), unique values, memstore limit 64..512 B, "
          "hook-driven or real 1 ms compaction ticker with threshold 0..2, GOMAXPROCS in {1,2,4,16}, generated Gosched points; a chaos goroutine issues rotations and compaction cycles after generated numbers of completed "
          "operations; half of the cases are gated scenarios that park the flusher or the compactor inside the creation of its table while clients and further rotations run, then release it; invocation/response stamps come "
          "from one atomic counter; oracle: no operation error, and porcupine finds a linearization of the full history (setup puts, client operations, final sequential reads) per key; porcupine timeouts are counted as "
          "inconclusive; non-trivial = >=1 flush and >=1 compaction during the history and two clients overlapping on one key; distinct = distinct case JSON"),
    level_text="Every recorded history is decided exactly by porcupine; the harness owns the interleaving dimension 'client calls vs progress of flush/compaction' through gates, the rest is sampled from the Go scheduler.",
    level_note="outside the gates the Go scheduler owns the interleaving; a violation needing one specific preemption between adjacent instructions may be missed; a non-linearizable history is always real",
    assumptions=COMMON_ASSUME + ["porcupine v1.3.0", "hooks: simpledb.Verif*, sstables.VerifSetWriterOpenHook (tag verif)"],
    require_labels=["flush-during-history", "compaction-during-history", "real-ticker"],
    expect_labels=["gated-scenario-parked-a-background-writer"],
    quick=dict(shards=16, checks=30, shrink_s=3, env=dict(VERIF_SHRINK_S=30)),
    thorough=dict(shards=16, checks=600, shrink_s=3, timeout_s=7200),
)

PROPS["C18"] = dict(
    pkg="props/c18", level="exploration", engine="E-conc", design_ref="§4 C18", race=True,
    technique="generated concurrent call programs (rapid) executed under the Go race detector, each call compared with its precomputed sequential answer",
    rule=("case = (a) the C05 database harness (2..6 clients, rotations, compactions, gates, ticker) with every client owning a private key range plus shared read-only cold keys: each client's results must equal its own "
          "sequential execution; (b) one table reader (default slice loader or skip-list loader, each data compression) shared by 2..16 goroutines x 5..60 Get/Contains/ScanRange/ScanStartingAt calls at present and absent keys; "
          "(c) one mmap RecordIO reader shared by 2..16 goroutines x ReadNextAt/SeekNext at generated offsets over files with nil/empty/marker-laden records; GOMAXPROCS in {2,4,16}; the test binary is built with -race "
          "(GORACE halt_on_error): any race report is a violation, any panic is a violation, every call result is compared with the answer computed from the written data; non-trivial = >=4 goroutines with >=2 calls in flight on "
          "the same handle at the same time (measured with an in-flight counter), for (a) >=4 clients or overlapping calls or a flush; distinct = distinct case JSON"),
    level_text="The race detector decides 'data race' for the executed schedule independently of whether the bad interleaving occurred; results are compared with exact sequential answers.",
    level_note="full Scan() is not issued concurrently (the statement lists Get/Contains/range scans); only the documented default loaders are shared; interleavings are sampled from the Go scheduler",
    assumptions=COMMON_ASSUME + ["Go race detector (-race)", "hooks as C05"],
    require_labels=["kind=db", "kind=table", "kind=mmap", "loader=slice", "loader=skiplist"],
    quick=dict(shards=16, checks=12, shrink_s=3, env=dict(VERIF_SHRINK_S=20)),
    thorough=dict(shards=16, checks=1500, shrink_s=3, timeout_s=7200),
)

NOT_APPLICABLE = {}


def write_manifest(root):
    checks = []
    for pid in sorted(PROPS):
        c = PROPS[pid]
        checks.append({
            "property_id": pid,
            "quick_cmd": f"./check {pid} --tier quick",
            "thorough_cmd": f"./check {pid} --tier thorough",
            "evidence_file": f"evidence/{pid}.json",
            "replay_cmd_template": f"./check {pid} --replay {{path}}",
            "engine": c.get("engine", ""),
            "level_claimed": {"category": c["level"], "text": c["level_text"], "design_ref": c.get("design_ref", "")},
            "level_note": c["level_note"],
            "technique": c["technique"],
        })
    all_ids = [json.loads(l)["id"] for l in open(os.path.join(root, "properties.jsonl"))]
    na = []
    for pid in all_ids:
        if pid not in PROPS:
            na.append({"property_id": pid, "reason": NOT_APPLICABLE.get(pid, "check not built yet in this revision of /verif (work in progress; see DESIGN.md §8 build order)")})
    hooks_commits = []
    hp = os.path.join(root, "MANIFEST.hooks")
    if os.path.exists(hp):
        hooks_commits = [l.split()[0] for l in open(hp) if l.strip() and not l.startswith("#")]
    m = {
        "version": 1,
        "setup_cmd": "./check --setup",
        "hooks": {
            "guard": "verif",
            "enable": "go test -c -tags verif (harness module /verif/harness, replace github.com/thomasjungblut/go-sstables => /repo)",
            "baseline_off_cmd": BASELINE_OFF,
            "source_commits": hooks_commits,
            "add_only": True,
        },
        "engines": [
            {"name": "E-model", "path": "harness/internal/h", "kind_free_text": "rapid model-based property runner with case serialisation, stats and replay",
             "serves_properties": sorted(p for p in PROPS if PROPS[p].get("engine") == "E-model")},
            {"name": "E-pos", "path": "harness/internal/h", "kind_free_text": "exhaustive fault/damage positions inside each generated object",
             "serves_properties": sorted(p for p in PROPS if PROPS[p].get("engine") == "E-pos")},
            {"name": "E-crash", "path": "harness/internal/fsmodel", "kind_free_text": "strace-recorded system-call log replayed on an inode model; every boundary is a crash image recovered by the real code",
             "serves_properties": sorted(p for p in PROPS if PROPS[p].get("engine") == "E-crash")},
            {"name": "E-conc", "path": "harness/props/c05", "kind_free_text": "gated concurrent histories checked with porcupine / race detector",
             "serves_properties": sorted(p for p in PROPS if PROPS[p].get("engine") == "E-conc")},
            {"name": "E-fault", "path": "harness/props/c11/sys.go", "kind_free_text": "generated database programs in a child process whose write/read/fsync/directory system calls are failed by strace fault injection (per file or per call number), and whose table writers are failed through the writer-open hook; oracle = the directory reopened without faults holds the acknowledged operations",
             "serves_properties": ["C11"]},
        ],
        "checks": checks,
        "not_applicable": na,
        "notes": "All checks are driven by ./check (python3 stdlib) which rebuilds the harness against /repo's working tree on every call. See DESIGN.md.",
    }
    with open(os.path.join(root, "MANIFEST.json"), "w") as f:
        json.dump(m, f, indent=1)
        f.write("\n")
