"""Per-property configuration of the checks; MANIFEST.json is generated from this table
(./check --manifest)."""
import json, os

BASELINE_OFF = "cd /repo && GOFLAGS=-mod=mod go test -json -vet=off -count=1 -timeout 25m ./..."

COMMON_ASSUME = [
    "rapid v1.3.0 generators and PRNG; the Go toolchain and runtime",
    "the harness oracle (reference model) in /verif/harness/props/<id> is itself correct",
]

PROPS = {}

PROPS["C16"] = dict(
    pkg="props/c16", level="exploration", engine="E-model", design_ref="§4 C16",
    technique="model-based PBT (rapid) against sorted-slice / multiset oracles + exhaustive permutations",
    rule=("cases = skip-list insertion orders (all permutations of <=5 (quick) / <=7 (thorough) keys, then rapid-generated "
          "int/reversed-int/string/bytes key sets) probed at every key and every gap with all bound pairs, and priority-queue "
          "runs over 0..8 ascending inputs with duplicate keys; non-trivial = skip list with >=2 keys, >=1 absent probe and >=1 "
          "range whose both bounds fall strictly between keys; queue run where an input ran dry while >=3 others were live and "
          "keys repeat across inputs; distinct = distinct case JSON (sha256)"),
    level_text=("Sorted-map and k-way-merge oracles over exhaustively enumerated small insertion orders plus thousands of "
                "generated cases; exploration is the right level because the domain is unbounded and the oracle is exact."),
    level_note="assumes comparator consistency as stated in the property; no duplicate inserts (documented REQUIRES)",
    assumptions=COMMON_ASSUME,
    quick=dict(shards=8, checks=300),
    thorough=dict(shards=16, checks=4000),
)

NOT_APPLICABLE = {}


def write_manifest(root):
    checks = []
    for pid in sorted(PROPS):
        c = PROPS[pid]
        checks.append({
            "property_id": pid,
            "quick_cmd": f"./check {pid} --tier quick",
            "thorough_cmd": f"./check {pid} --tier thorough",
            "evidence_file": f"evidence/{pid}.json",
            "replay_cmd_template": f"./check {pid} --replay {{path}}",
            "engine": c.get("engine", ""),
            "level_claimed": {"category": c["level"], "text": c["level_text"], "design_ref": c.get("design_ref", "")},
            "level_note": c["level_note"],
            "technique": c["technique"],
        })
    all_ids = [json.loads(l)["id"] for l in open(os.path.join(root, "properties.jsonl"))]
    na = []
    for pid in all_ids:
        if pid not in PROPS:
            na.append({"property_id": pid, "reason": NOT_APPLICABLE.get(pid, "check not built yet in this revision of /verif (work in progress; see DESIGN.md §8 build order)")})
    hooks_commits = []
    hp = os.path.join(root, "MANIFEST.hooks")
    if os.path.exists(hp):
        hooks_commits = [l.split()[0] for l in open(hp) if l.strip() and not l.startswith("#")]
    m = {
        "version": 1,
        "setup_cmd": "./check --setup",
        "hooks": {
            "guard": "verif",
            "enable": "go test -c -tags verif (harness module /verif/harness, replace github.com/thomasjungblut/go-sstables => /repo)",
            "baseline_off_cmd": BASELINE_OFF,
            "source_commits": hooks_commits,
            "add_only": True,
        },
        "engines": [
            {"name": "E-model", "path": "harness/internal/h", "kind_free_text": "rapid model-based property runner with case serialisation, stats and replay",
             "serves_properties": sorted(p for p in PROPS if PROPS[p].get("engine") == "E-model")},
            {"name": "E-pos", "path": "harness/internal/h", "kind_free_text": "exhaustive fault/damage positions inside each generated object",
             "serves_properties": sorted(p for p in PROPS if PROPS[p].get("engine") == "E-pos")},
            {"name": "E-crash", "path": "harness/internal/fsmodel", "kind_free_text": "strace-recorded system-call log replayed on an inode model; every boundary is a crash image recovered by the real code",
             "serves_properties": sorted(p for p in PROPS if PROPS[p].get("engine") == "E-crash")},
            {"name": "E-conc", "path": "harness/props/c05", "kind_free_text": "gated concurrent histories checked with porcupine / race detector",
             "serves_properties": sorted(p for p in PROPS if PROPS[p].get("engine") == "E-conc")},
        ],
        "checks": checks,
        "not_applicable": na,
        "notes": "All checks are driven by ./check (python3 stdlib) which rebuilds the harness against /repo's working tree on every call. See DESIGN.md.",
    }
    with open(os.path.join(root, "MANIFEST.json"), "w") as f:
        json.dump(m, f, indent=1)
        f.write("\n")
