package skiplist_test

import (
	"testing"

	"github.com/thomasjungblut/go-sstables/skiplist"
)

func TestS135ManyInserts(t *testing.T) {
	total := 0
	defer func() {
		if r := recover(); r != nil {
			t.Fatalf("Insert panicked after %d inserts: %v", total, r)
		}
	}()
	for round := 0; round < 400000; round++ {
		m := skiplist.NewSkipListMap[int, int](skiplist.OrderedComparator[int]{})
		for i := 0; i < 200; i++ {
			m.Insert(i, i)
			total++
		}
	}
}
