//go:build linux

package sstables_test

// S018 / S019 (recordio/bufio_vendor.go:94, `if err != nil` of Writer.Flush inverted) and
// S030 (recordio/bufio_vendor.go:100, Flush returns nil instead of the write error).
// C11: a failing write(2) while a table is written must surface as an error of WriteNext or Close; success must never be
// reported for a table that is missing records.
//
// The write failure is real: RLIMIT_FSIZE makes every write(2) beyond the limit fail with EFBIG (SIGXFSZ ignored).

import (
	"bytes"
	"errors"
	"fmt"
	"os/signal"
	"syscall"
	"testing"

	"github.com/thomasjungblut/go-sstables/skiplist"
	"github.com/thomasjungblut/go-sstables/sstables"
)

func withFileSizeLimit(t *testing.T, limit uint64, f func()) {
	t.Helper()
	signal.Ignore(syscall.SIGXFSZ)
	var old syscall.Rlimit
	if err := syscall.Getrlimit(syscall.RLIMIT_FSIZE, &old); err != nil {
		t.Fatal(err)
	}
	if err := syscall.Setrlimit(syscall.RLIMIT_FSIZE, &syscall.Rlimit{Cur: limit, Max: old.Max}); err != nil {
		t.Fatal(err)
	}
	defer func() {
		if err := syscall.Setrlimit(syscall.RLIMIT_FSIZE, &old); err != nil {
			t.Fatal(err)
		}
	}()
	f()
}

func TestFailedFlushOfTableWriterIsReported(t *testing.T) {
	for _, wbuf := range []int{64, 4 << 20} { // 64: the failure hits a flush inside WriteNext; 4 MiB: the final flush in Close
		dir := t.TempDir()
		const n = 40
		var writeErr error
		withFileSizeLimit(t, 256, func() {
			w, err := sstables.NewSSTableStreamWriter(sstables.WriteBasePath(dir),
				sstables.WithKeyComparator(skiplist.BytesComparator{}),
				sstables.DataCompressionType(0), sstables.WriteBufferSizeBytes(wbuf))
			if err != nil {
				t.Fatal(err)
			}
			if err := w.Open(); err != nil {
				t.Fatal(err)
			}
			for i := 0; i < n; i++ {
				if err := w.WriteNext([]byte(fmt.Sprintf("key%03d", i)), bytes.Repeat([]byte{'v'}, 30)); err != nil {
					writeErr = errors.Join(writeErr, err)
				}
			}
			writeErr = errors.Join(writeErr, w.Close())
		})
		if writeErr != nil {
			continue // reported: fine
		}
		// success was reported: then the table has to be there, completely
		r, err := sstables.NewSSTableReader(sstables.ReadBasePath(dir))
		if err != nil {
			t.Fatalf("wbuf %d: every WriteNext and Close returned nil although write(2) failed with EFBIG; the table does not load: %v", wbuf, err)
		}
		defer r.Close()
		for i := 0; i < n; i++ {
			if v, err := r.Get([]byte(fmt.Sprintf("key%03d", i))); err != nil || len(v) != 30 {
				t.Fatalf("wbuf %d: success reported, but key%03d reads (%q, %v)", wbuf, i, v, err)
			}
		}
		t.Fatalf("wbuf %d: no write failed? (limit not effective)", wbuf)
	}
}
