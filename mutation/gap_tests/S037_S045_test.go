package recordio_test

import (
	"bytes"
	"errors"
	"io"
	"path/filepath"
	"testing"

	"github.com/thomasjungblut/go-sstables/recordio"
)

func TestReadBufferOfOneByte(t *testing.T) {
	for _, comp := range []int{recordio.CompressionTypeNone, recordio.CompressionTypeSnappy} {
		for _, rbuf := range []int{1, 2, 3} {
			path := filepath.Join(t.TempDir(), "f.rio")
			w, err := recordio.NewFileWriter(recordio.Path(path), recordio.CompressionType(comp))
			if err != nil {
				t.Fatal(err)
			}
			if err := w.Open(); err != nil {
				t.Fatal(err)
			}
			recs := [][]byte{[]byte("hello"), nil, {}, bytes.Repeat([]byte{0x91, 0x8d, 0x4c}, 50), []byte("x")}
			for _, r := range recs {
				if _, err := w.Write(r); err != nil {
					t.Fatal(err)
				}
			}
			if err := w.Close(); err != nil {
				t.Fatal(err)
			}
			r, err := recordio.NewFileReader(recordio.ReaderPath(path), recordio.ReaderBufferSizeBytes(rbuf))
			if err != nil {
				t.Fatal(err)
			}
			if err := r.Open(); err != nil {
				t.Fatal(err)
			}
			for i, want := range recs {
				got, err := r.ReadNext()
				if err != nil || !bytes.Equal(got, want) || (got == nil) != (want == nil) {
					t.Fatalf("comp %d rbuf %d: record %d = (%q, %v)", comp, rbuf, i, got, err)
				}
			}
			if _, err := r.ReadNext(); !errors.Is(err, io.EOF) {
				t.Fatalf("comp %d rbuf %d: want EOF, got %v", comp, rbuf, err)
			}
			_ = r.Close()
		}
	}
}
