//go:build linux

package sstables_test

// S029: recordio/bufio_vendor.go:99, `b.err = err` deleted from Writer.Flush: a write error is no longer sticky.
// C15: "a write that fails for an I/O reason is rolled back; after Close the table contains exactly the successfully
// written pairs". A transient write(2) failure (RLIMIT_FSIZE lowered for three WriteNext calls, like a one-shot strace
// injection) leaves a fragment of the failed record in the write buffer. Unmodified, the writer stays failed and Close
// reports it. With the mutant later writes and Close succeed, the metadata is written, and the table does not load.

import (
	"bytes"
	"fmt"
	"os/signal"
	"syscall"
	"testing"

	"github.com/thomasjungblut/go-sstables/skiplist"
	"github.com/thomasjungblut/go-sstables/sstables"
)

func s029WithFileSizeLimit(t *testing.T, limit uint64, f func()) {
	t.Helper()
	signal.Ignore(syscall.SIGXFSZ)
	var old syscall.Rlimit
	if err := syscall.Getrlimit(syscall.RLIMIT_FSIZE, &old); err != nil {
		t.Fatal(err)
	}
	if err := syscall.Setrlimit(syscall.RLIMIT_FSIZE, &syscall.Rlimit{Cur: limit, Max: old.Max}); err != nil {
		t.Fatal(err)
	}
	defer func() { _ = syscall.Setrlimit(syscall.RLIMIT_FSIZE, &old) }()
	f()
}

func TestS029TransientWriteFailure(t *testing.T) {
	for _, wbuf := range []int{16, 64, 100} {
		dir := t.TempDir()
		w, err := sstables.NewSSTableStreamWriter(sstables.WriteBasePath(dir),
			sstables.WithKeyComparator(skiplist.BytesComparator{}),
			sstables.DataCompressionType(0), sstables.WriteBufferSizeBytes(wbuf))
		if err != nil {
			t.Fatal(err)
		}
		if err := w.Open(); err != nil {
			t.Fatal(err)
		}
		var ok []string
		failed := 0
		write := func(i int) {
			k := fmt.Sprintf("key%03d", i)
			if err := w.WriteNext([]byte(k), bytes.Repeat([]byte{'v'}, 30)); err != nil {
				failed++
			} else {
				ok = append(ok, k)
			}
		}
		for i := 0; i < 5; i++ {
			write(i)
		}
		s029WithFileSizeLimit(t, 300, func() {
			for i := 5; i < 8; i++ {
				write(i)
			}
		})
		for i := 8; i < 20; i++ {
			write(i)
		}
		if failed == 0 {
			t.Fatalf("wbuf %d: no write failed, the limit was not effective", wbuf)
		}
		if cerr := w.Close(); cerr != nil {
			continue // the failure is reported, nothing is claimed about the table
		}
		r, err := sstables.NewSSTableReader(sstables.ReadBasePath(dir))
		if err != nil {
			t.Fatalf("wbuf %d: Close returned nil after %d failed writes, but the table does not load: %v", wbuf, failed, err)
		}
		for _, k := range ok {
			if v, err := r.Get([]byte(k)); err != nil || len(v) != 30 {
				t.Fatalf("wbuf %d: %s reads (%q, %v)", wbuf, k, v, err)
			}
		}
		if int(r.MetaData().NumRecords) != len(ok) {
			t.Fatalf("wbuf %d: NumRecords %d, %d writes succeeded", wbuf, r.MetaData().NumRecords, len(ok))
		}
		_ = r.Close()
	}
}
