package recordio_test

// S079: recordio/common_reader.go:163  uvarintLen: `x >= 0x80` -> `x > 0x80`.
// C04 (also C03/C07/C01 through every RecordIO file): a record whose header CRC32C, shifted right by 7k bits, equals
// exactly 0x80 is rejected as "checksum is not encoded canonically". About 1 in 2000 header checksums has that shape;
// for an uncompressed file the checksum only depends on the payload length, e.g. 1112, 2115, 3146, 4213, 5244 bytes.

import (
	"bytes"
	"errors"
	"io"
	"path/filepath"
	"testing"

	"github.com/thomasjungblut/go-sstables/recordio"
)

func TestS079HeaderChecksumWithSeptet0x80(t *testing.T) {
	for _, n := range []int{1112, 2115, 3146, 4213, 5244, 6247, 7278, 16538} {
		path := filepath.Join(t.TempDir(), "f.rio")
		w, err := recordio.NewFileWriter(recordio.Path(path))
		if err != nil {
			t.Fatal(err)
		}
		if err := w.Open(); err != nil {
			t.Fatal(err)
		}
		rec := bytes.Repeat([]byte{'x'}, n)
		off, err := w.Write(rec)
		if err != nil {
			t.Fatal(err)
		}
		if err := w.Close(); err != nil {
			t.Fatal(err)
		}

		r, err := recordio.NewFileReaderWithPath(path)
		if err != nil {
			t.Fatal(err)
		}
		if err := r.Open(); err != nil {
			t.Fatal(err)
		}
		got, err := r.ReadNext()
		if err != nil || !bytes.Equal(got, rec) {
			t.Fatalf("len %d: ReadNext = (%d bytes, %v)", n, len(got), err)
		}
		if _, err := r.ReadNext(); !errors.Is(err, io.EOF) {
			t.Fatalf("len %d: want EOF, got %v", n, err)
		}
		_ = r.Close()

		m, err := recordio.NewMemoryMappedReaderWithPath(path)
		if err != nil {
			t.Fatal(err)
		}
		if err := m.Open(); err != nil {
			t.Fatal(err)
		}
		got, err = m.ReadNextAt(off)
		if err != nil || !bytes.Equal(got, rec) {
			t.Fatalf("len %d: ReadNextAt = (%d bytes, %v)", n, len(got), err)
		}
		_ = m.Close()
	}
}
