// Command runner executes one JSON program (see internal/prog) against the real library in a child
// process, so that it can be traced with strace or killed. Before and after every operation it
// appends a marker line to an acknowledgement file that lives OUTSIDE the database directory.
//
//	runner <program.json> <dir> <ackfile>
package main

import (
	"encoding/json"
	"errors"
	"fmt"
	"os"
	"strconv"
	"syscall"
	"time"

	"github.com/thomasjungblut/go-sstables/recordio"
	rProto "github.com/thomasjungblut/go-sstables/recordio/proto"
	"github.com/thomasjungblut/go-sstables/simpledb"
	"github.com/thomasjungblut/go-sstables/sstables"
	"github.com/thomasjungblut/go-sstables/wal"
	"verif/internal/failw"
	"verif/internal/prog"
	"verif/internal/sdb"
)

var ack *os.File

func mark(s string) {
	if _, err := ack.WriteString(s); err != nil {
		fmt.Fprintln(os.Stderr, "ack write failed:", err)
		os.Exit(3)
	}
}

func res(err error) string {
	switch {
	case err == nil:
		return "ok"
	case errors.Is(err, simpledb.ErrNotFound):
		return "notfound"
	default:
		return "err " + fmt.Sprintf("%q", err.Error())
	}
}

func main() {
	// never outlive the harness: die with the tracer (the parent), and in any case after ten minutes - a program takes
	// seconds, but a deadlocked database with a running ticker would otherwise spin on as an orphan
	_, _, _ = syscall.RawSyscall(syscall.SYS_PRCTL, 1 /* PR_SET_PDEATHSIG */, uintptr(syscall.SIGKILL), 0)
	time.AfterFunc(10*time.Minute, func() { os.Exit(9) })
	if len(os.Args) != 4 {
		fmt.Fprintln(os.Stderr, "usage: runner program.json dir ackfile")
		os.Exit(2)
	}
	b, err := os.ReadFile(os.Args[1])
	if err != nil {
		panic(err)
	}
	var p prog.Program
	if err := json.Unmarshal(b, &p); err != nil {
		panic(err)
	}
	dir := os.Args[2]
	ack, err = os.OpenFile(os.Args[3], os.O_WRONLY|os.O_CREATE|os.O_APPEND, 0o644)
	if err != nil {
		panic(err)
	}
	// a runner that replaced itself after an abandoned session (see runDB) continues where it stopped
	from, _ = strconv.Atoi(os.Getenv("VERIF_RUNNER_FROM"))
	flushes, _ = strconv.Atoi(os.Getenv("VERIF_RUNNER_FLUSHES"))
	compactions, _ = strconv.Atoi(os.Getenv("VERIF_RUNNER_COMPACTIONS"))
	installFault(p.Fault)
	switch p.Kind {
	case "db", "recover":
		runDB(&p, dir)
	case "wal":
		runWal(&p, dir)
	default:
		panic("unknown program kind " + p.Kind)
	}
}

var from, flushes, compactions int

func installFault(f *prog.WriterFault) {
	if f == nil {
		return
	}
	sstables.VerifSetWriterOpenHook(func(w *sstables.SSTableStreamWriter) {
		isCompaction := len(w.VerifBasePath()) > 0 && containsCompaction(w.VerifBasePath())
		n := 0
		if isCompaction {
			n = compactions
			compactions++
		} else {
			n = flushes
			flushes++
		}
		if (f.Target == "compaction") != isCompaction || n != f.Nth {
			return
		}
		ctl := failw.NewCtl()
		ctl.FailAt, ctl.Sticky = f.Pos, f.Sticky
		if f.Pos < 0 {
			ctl.FailAt, ctl.FailClose = -1, true
		}
		ctl.OnFire = func() { mark("fault-fired\n") }
		if f.Which == "data" {
			w.VerifWrapWriters(func(d recordio.WriterI) recordio.WriterI { return &failw.Data{WriterI: d, C: ctl} }, nil)
		} else {
			w.VerifWrapWriters(nil, func(i rProto.WriterI) rProto.WriterI { return &failw.Index{WriterI: i, C: ctl} })
		}
		mark(fmt.Sprintf("fault-armed %s %d\n", f.Target, n))
	})
}

func containsCompaction(p string) bool {
	for i := 0; i+len(simpledb.SSTableCompactionPathPrefix) <= len(p); i++ {
		if p[i:i+len(simpledb.SSTableCompactionPathPrefix)] == simpledb.SSTableCompactionPathPrefix {
			return true
		}
	}
	return false
}

func runDB(p *prog.Program, dir string) {
	ops := p.Ops()
	var db *simpledb.DB
	for _, op := range ops {
		if op.Index < from {
			continue
		}
		mark(prog.CallMarker(op.Index))
		var err error
		switch op.Kind {
		case "open":
			o := sdb.Opts{MemLimit: 1 << 20, Threshold: 1000, MaxSize: 1, Ratio: 1, WBuf: 4096, RBuf: 4096}
			if p.Kind == "db" {
				o = p.Sessions[op.Session].Opts
			}
			db, err = sdb.Open(dir, o)
			if err != nil {
				mark(prog.RetMarker(op.Index, res(err)))
				os.Exit(4)
			}
		case "close":
			err = db.Close()
			if err != nil {
				// a Close that fails (only possible with injected I/O failures) returns early and leaves the flusher and
				// compactor of this handle running; opening the next session beside them would put two live handles
				// on one directory, which no application may do - it stops instead
				mark(prog.RetMarker(op.Index, res(err)))
				os.Exit(5)
			}
		case "put":
			err = db.PutBytes(p.KeyOf(op.Step), p.ValueOf(op.Step, op.Index))
		case "delete":
			err = db.DeleteBytes(p.KeyOf(op.Step))
		case "get":
			_, err = db.GetBytes(p.KeyOf(op.Step))
		case "rotate":
			err = db.VerifRotate()
		case "waitflush":
			err = db.VerifWaitFlushIdle()
		case "compact":
			if err = db.VerifWaitFlushIdle(); err == nil {
				_, _, err = db.VerifCompactOnce()
			}
		default:
			panic("bad op " + op.Kind)
		}
		if p.Kind == "db" && p.Sessions[op.Session].Wait && op.Kind != "close" && op.Kind != "open" && err == nil {
			err = db.VerifWaitFlushIdle()
		}
		mark(prog.RetMarker(op.Index, res(err)))
		if p.Kind == "db" && p.Sessions[op.Session].NoClose && op.Step != nil && op.Step == &p.Sessions[op.Session].Steps[len(p.Sessions[op.Session].Steps)-1] {
			// abandon the handle at a quiescent point: the application goes away without Close and is started again.
			// The runner replaces its own process image for that (execve: same pid, every descriptor, lock and
			// goroutine of the old handle is gone, as after a restart of the application).
			_ = db.VerifWaitFlushIdle()
			db = nil
			if op.Index+1 < len(ops) {
				env := append(os.Environ(), fmt.Sprintf("VERIF_RUNNER_FROM=%d", op.Index+1),
					fmt.Sprintf("VERIF_RUNNER_FLUSHES=%d", flushes), fmt.Sprintf("VERIF_RUNNER_COMPACTIONS=%d", compactions))
				self, err := os.Executable()
				if err == nil {
					err = syscall.Exec(self, os.Args, env)
				}
				fmt.Fprintln(os.Stderr, "cannot restart the runner:", err)
				os.Exit(6)
			}
		}
	}
}

func runWal(p *prog.Program, dir string) {
	opts := []wal.Option{wal.BasePath(dir), wal.WriterFactory(func(path string) (recordio.WriterI, error) {
		return recordio.NewFileWriter(recordio.Path(path), recordio.CompressionType(p.Wal.Comp), recordio.BufferSizeBytes(p.Wal.WBuf))
	})}
	if p.Wal.MaxSize > 0 {
		opts = append(opts, wal.MaximumWalFileSizeBytes(p.Wal.MaxSize))
	}
	o, err := wal.NewWriteAheadLogOptions(opts...)
	if err != nil {
		panic(err)
	}
	var w wal.WriteAheadLogI
	for _, op := range p.Ops() {
		mark(prog.CallMarker(op.Index))
		var err error
		switch op.Kind {
		case "open":
			w, err = wal.NewWriteAheadLog(o)
			if err != nil {
				mark(prog.RetMarker(op.Index, res(err)))
				os.Exit(4)
			}
		case "close":
			err = w.Close()
		case "append":
			err = w.Append(op.Step.Rec.Bytes())
		case "sync":
			err = w.AppendSync(op.Step.Rec.Bytes())
		case "walrotate":
			_, err = w.Rotate()
		}
		mark(prog.RetMarker(op.Index, res(err)))
	}
}
