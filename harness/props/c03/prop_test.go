package c03

import (
	"testing"

	"verif/internal/h"
)

func TestProp(t *testing.T) {
	h.Run(t, h.Spec[Case]{ID: "C03", Gen: Gen(), Prop: Prop})
}
