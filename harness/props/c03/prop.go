// Package c03: an SSTable returns exactly what was written, for every index type and option.
package c03

import (
	"bytes"
	"errors"
	"fmt"
	"sort"

	"github.com/thomasjungblut/go-sstables/sstables"
	"pgregory.net/rapid"
	"verif/internal/gen"
	"verif/internal/h"
	"verif/internal/tbl"
)

type Case struct {
	KVs     []tbl.KV    `json:"kvs"`
	W       tbl.WOpts   `json:"w"`
	Readers []tbl.ROpts `json:"readers"`
	// Storm > 0: a lookup storm instead of KVs: a table of Storm generated keys (4-byte big-endian numbers, tiny values)
	// and one long-lived reader that looks up every key (per-reader lookup state, such as the disk index's cache of
	// probed offsets, only fills up after tens of thousands of distinct probes)
	Storm int `json:"storm,omitempty"`
}

func Gen() *rapid.Generator[Case] {
	return rapid.Custom(func(t *rapid.T) Case {
		var c Case
		if rapid.IntRange(0, 39).Draw(t, "storm") == 0 {
			c.Storm = rapid.SampledFrom([]int{3000, 40000}).Draw(t, "stormKeys")
			c.W = tbl.WOpts{BloomN: uint64(c.Storm), BloomP: 0.01, WriteBuf: 4096}
			c.Readers = []tbl.ROpts{{Loader: rapid.SampledFrom([]string{"disk", "disk", "slice", "skiplist"}).Draw(t, "loader"), ReadBuf: 4096, SkipLoad: true}}
			return c
		}
		maxKeys := 60
		if h.Thorough() {
			maxKeys = 400
		}
		shape := rapid.SampledFrom([]string{"free", "free", "free", "w4", "w20", "biglast"}).Draw(t, "shape")
		n := rapid.IntRange(0, maxKeys).Draw(t, "n")
		if rapid.IntRange(0, 3).Draw(t, "small") == 0 {
			n = rapid.IntRange(0, 3).Draw(t, "nsmall")
		}
		var keys [][]byte
		switch shape {
		case "w4", "w20":
			w := 4
			if shape == "w20" {
				w = 20
			}
			alpha := []byte{0x00, 0x01, 'a', 'b', 0x91, 0x8d, 0x4c, 0xff}
			for i := 0; i < n; i++ {
				k := rapid.SliceOfN(rapid.SampledFrom(alpha), 4, 4).Draw(t, "k4")
				if w == 20 {
					k = append(bytes.Repeat([]byte{'p'}, 16), k...)
				}
				keys = append(keys, k)
			}
		default:
			keys = rapid.SliceOfN(gen.KeyGen(true, 300), n, n).Draw(t, "keys")
		}
		keys = gen.SortedDistinct(keys)
		if shape == "biglast" && len(keys) > 0 {
			// a last key so long that its index entry dominates the index file
			big := append(append([]byte{}, keys[len(keys)-1]...), gen.Expand(7, rapid.IntRange(200, 6000).Draw(t, "biglen"))...)
			keys = append(keys, big)
		}
		vg := gen.BlobGen(true, true, []int{16, 64, 4096}, 5000)
		for _, k := range keys {
			c.KVs = append(c.KVs, tbl.KV{K: k, V: vg.Draw(t, "val")})
		}
		c.W = tbl.WOptsGen().Draw(t, "w")
		loaders := []string{"slice", "slice-explicit", "skiplist", "disk", "disk"}
		if shape == "w4" {
			loaders = append(loaders, "map4", "map4", "map20")
		}
		if shape == "w20" {
			loaders = append(loaders, "map20", "map20")
		}
		nr := rapid.IntRange(1, 3).Draw(t, "nreaders")
		for i := 0; i < nr; i++ {
			c.Readers = append(c.Readers, tbl.ROpts{
				Loader:     rapid.SampledFrom(loaders).Draw(t, "loader"),
				ReadBuf:    rapid.SampledFrom([]int{1, 3, 8, 64, 4096, 4 << 20}).Draw(t, "rbuf"),
				SkipLoad:   rapid.IntRange(0, 3).Draw(t, "skipload") == 0,
				CheckReads: rapid.Bool().Draw(t, "checkreads"),
			})
		}
		return c
	})
}

func thin(ps [][]byte, max int) [][]byte {
	if len(ps) <= max {
		return ps
	}
	step := (len(ps) + max - 1) / max
	var out [][]byte
	for i := 0; i < len(ps); i += step {
		out = append(out, ps[i])
	}
	// always keep the extremes
	out = append(out, ps[len(ps)-1])
	return out
}

func Prop(c Case, x *h.Ctx) *h.Violation {
	dir, done := h.Scratch("c03")
	defer done()
	if c.Storm > 0 {
		return storm(c, x, dir)
	}
	if err := tbl.Write(dir, c.KVs, c.W); err != nil {
		return h.V("sstable/write-err", "writing %d ascending keys failed: %v", len(c.KVs), err)
	}
	keys := make([][]byte, len(c.KVs))
	vals := make([][]byte, len(c.KVs))
	for i, kv := range c.KVs {
		keys[i] = kv.K
		vals[i] = kv.V.Bytes()
	}
	find := func(p []byte) (int, bool) {
		i := sort.Search(len(keys), func(i int) bool { return bytes.Compare(keys[i], p) >= 0 })
		return i, i < len(keys) && bytes.Equal(keys[i], p)
	}
	probes := thin(gen.Probes(append([][]byte{}, keys...)), 40)
	bounds := thin(probes, 12)
	strictInside := false
	absentProbe := false
	for ri, ro := range c.Readers {
		width := 0
		if ro.Loader == "map4" {
			width = 4
		} else if ro.Loader == "map20" {
			width = 20
		}
		fp := "sstable/" + ro.Loader
		r, err := tbl.Open(dir, ro)
		if err != nil {
			return h.V(fp+"/open", "reader %d (%+v): open failed: %v", ri, ro, err)
		}
		v := func() *h.Violation {
			same := func(what string, got []tbl.Pair, lo, hi int) *h.Violation {
				if len(got) != hi-lo {
					return h.V(fp+"/"+what, "%s: %d entries want %d", what, len(got), hi-lo)
				}
				for i := range got {
					if !bytes.Equal(got[i].K, keys[lo+i]) {
						return h.V(fp+"/"+what, "%s: entry %d key %x want %x", what, i, got[i].K, keys[lo+i])
					}
					if !bytes.Equal(got[i].V, vals[lo+i]) || (got[i].V == nil) != (vals[lo+i] == nil) {
						return h.V(fp+"/"+what, "%s: key %x value %.40x(nil=%v) want %.40x(nil=%v)", what, got[i].K, got[i].V, got[i].V == nil, vals[lo+i], vals[lo+i] == nil)
					}
				}
				return nil
			}
			it, err := r.Scan()
			if err != nil {
				return h.V(fp+"/scan", "Scan: %v", err)
			}
			got, err := tbl.Drain(it, len(keys)+1)
			if err != nil {
				return h.V(fp+"/scan", "Scan iteration: %v", err)
			}
			if v := same("scan", got, 0, len(keys)); v != nil {
				return v
			}
			for _, p := range probes {
				if width > 0 && len(p) != width {
					continue // the map loaders are only defined for keys of the mapper's width
				}
				i, present := find(p)
				if !present {
					absentProbe = true
				}
				ok, err := r.Contains(p)
				if err != nil || ok != present {
					return h.V(fp+"/contains", "Contains(%x)=(%v,%v) want %v", p, ok, err, present)
				}
				val, err := r.Get(p)
				if present {
					if err != nil || !bytes.Equal(val, vals[i]) || (val == nil) != (vals[i] == nil) {
						return h.V(fp+"/get", "Get(%x)=(%.40x nil=%v,%v) want (%.40x nil=%v)", p, val, val == nil, err, vals[i], vals[i] == nil)
					}
				} else if !errors.Is(err, sstables.NotFound) {
					return h.V(fp+"/get", "Get(%x) absent key: (%x,%v) want NotFound", p, val, err)
				}
				it, err := r.ScanStartingAt(p)
				if err != nil {
					return h.V(fp+"/scan-starting-at", "ScanStartingAt(%x): %v", p, err)
				}
				got, err := tbl.Drain(it, len(keys)+1)
				if err != nil {
					return h.V(fp+"/scan-starting-at", "ScanStartingAt(%x) iteration: %v", p, err)
				}
				if v := same(fmt.Sprintf("ScanStartingAt(%x)", p), got, i, len(keys)); v != nil {
					v.Fingerprint = fp + "/scan-starting-at"
					return v
				}
			}
			for _, lo := range bounds {
				for _, hi := range bounds {
					it, err := r.ScanRange(lo, hi)
					if bytes.Compare(lo, hi) > 0 {
						if err == nil {
							return h.V(fp+"/range-inverted", "ScanRange(%x,%x) with lower > upper returned no error", lo, hi)
						}
						continue
					}
					if err != nil {
						return h.V(fp+"/scan-range", "ScanRange(%x,%x): %v", lo, hi, err)
					}
					got, err := tbl.Drain(it, len(keys)+1)
					if err != nil {
						return h.V(fp+"/scan-range", "ScanRange(%x,%x) iteration: %v", lo, hi, err)
					}
					i, lp := find(lo)
					j, hp := find(hi)
					end := j
					if hp {
						end++
					}
					if v := same(fmt.Sprintf("ScanRange(%x,%x)", lo, hi), got, i, end); v != nil {
						v.Fingerprint = fp + "/scan-range"
						if len(keys) > 0 && bytes.Compare(hi, keys[0]) < 0 {
							v.Fingerprint += "/upper-below-min"
						}
						return v
					}
					if len(keys) > 0 && bytes.Compare(hi, keys[0]) < 0 {
						x.Label("range-below-minimum")
					}
					if !lp && !hp && i > 0 && j < len(keys) && i < j {
						strictInside = true
					}
				}
			}
			return nil
		}()
		cerr := r.Close()
		if v != nil {
			return v
		}
		if cerr != nil {
			return h.V(fp+"/close", "Close: %v", cerr)
		}
		x.Labelf("loader=%s", ro.Loader)
		x.Labelf("loader=%s,dcomp=%d,icomp=%d", ro.Loader, c.W.DataComp, c.W.IndexComp)
	}
	if c.W.Simple {
		x.Label("writer=simple")
	} else {
		x.Label("writer=stream")
	}
	if n := len(c.KVs); n > 0 && len(c.KVs[n-1].K) > 200 {
		x.Label("last-entry-dominates")
	}
	x.SetNonTrivial(len(keys) >= 2 && absentProbe && strictInside)
	return nil
}

// storm: every key of a large table is looked up through one reader, twice (ascending, then with a stride).
func storm(c Case, x *h.Ctx, dir string) *h.Violation {
	kvs := make([]tbl.KV, c.Storm)
	for i := range kvs {
		k := []byte{byte(i >> 21), byte(i >> 13), byte(i >> 5), byte(i<<3) | 1}
		kvs[i] = tbl.KV{K: k, V: gen.Blob{Lit: []byte{byte(i), byte(i >> 8)}}}
	}
	if err := tbl.Write(dir, kvs, c.W); err != nil {
		return h.V("sstable/write-err", "writing %d ascending keys failed: %v", len(kvs), err)
	}
	ro := c.Readers[0]
	fp := "sstable/" + ro.Loader + "/storm"
	r, err := tbl.Open(dir, ro)
	if err != nil {
		return h.V(fp+"/open", "open failed: %v", err)
	}
	defer r.Close()
	x.Label("lookup-storm")
	x.Label("loader=" + ro.Loader)
	x.Labelf("storm-keys=%d", c.Storm)
	x.SetNonTrivial(true)
	look := func(i int) *h.Violation {
		k := kvs[i].K
		ok, err := r.Contains(k)
		if err != nil || !ok {
			return h.V(fp+"/contains", "lookup %d of one reader: Contains(%x)=(%v,%v) for a written key", i, k, ok, err)
		}
		v, err := r.Get(k)
		if err != nil || !bytes.Equal(v, kvs[i].V.Lit) {
			return h.V(fp+"/get", "lookup %d of one reader: Get(%x)=(%x,%v) want %x", i, k, v, err, kvs[i].V.Lit)
		}
		absent := []byte{k[0], k[1], k[2], k[3] &^ 1}
		if ok, err := r.Contains(absent); err != nil || ok {
			return h.V(fp+"/contains", "lookup %d of one reader: Contains(%x)=(%v,%v) for a key that was not written", i, absent, ok, err)
		}
		return nil
	}
	for i := range kvs {
		if v := look(i); v != nil {
			return v
		}
	}
	for i := 0; i < len(kvs); i += 7 {
		if v := look((i * 31) % len(kvs)); v != nil {
			return v
		}
	}
	return nil
}
