// Package c07: WAL replay yields the appended records in order; synced appends survive a kill.
// In-process leg (model-based); the crash leg lives in crash.go.
package c07

import (
	"bytes"
	"fmt"
	"os"
	"path/filepath"

	"github.com/thomasjungblut/go-sstables/recordio"
	"github.com/thomasjungblut/go-sstables/wal"
	"pgregory.net/rapid"
	"verif/internal/gen"
	"verif/internal/h"
)

type Step struct {
	Op  string   `json:"op"` // append | sync | rotate | replay
	Rec gen.Blob `json:"rec,omitempty"`
}

type Case struct {
	MaxSize uint64 `json:"max_size"` // 0 = default
	WBuf    int    `json:"wbuf"`
	Comp    int    `json:"comp"`
	RBuf    int    `json:"rbuf,omitempty"` // replay read buffer; 0 = the library default (4 MiB per file)
	Steps   []Step `json:"steps"`
	Crash   bool   `json:"crash,omitempty"` // crash leg: run under strace in a child and judge every boundary
	// replay of the crash leg
	TraceFile string `json:"trace_file,omitempty"`
	TraceRoot string `json:"trace_root,omitempty"`
	TraceAck  string `json:"trace_ack,omitempty"`
	Only      int    `json:"only,omitempty"`
}

func GenInProc() *rapid.Generator[Case] {
	return rapid.Custom(func(t *rapid.T) Case {
		var c Case
		c.MaxSize = rapid.SampledFrom([]uint64{1, 16, 64, 1024, 1 << 20, 0}).Draw(t, "max")
		c.WBuf = rapid.SampledFrom([]int{8, 64, 64, 4096, 4 << 20}).Draw(t, "wbuf")
		c.Comp = rapid.IntRange(0, 3).Draw(t, "comp")
		c.Crash = rapid.IntRange(0, 24).Draw(t, "crashleg") == 0
		c.RBuf = rapid.SampledFrom([]int{1, 16, 64, 4096, 4096, 0}).Draw(t, "rbuf")
		n := rapid.IntRange(0, 30).Draw(t, "n")
		bg := gen.BlobGen(true, true, []int{8, 16, 64}, 200)
		for i := 0; i < n; i++ {
			k := rapid.IntRange(0, 9).Draw(t, "kind")
			switch {
			case k == 0:
				c.Steps = append(c.Steps, Step{Op: "rotate"})
			case k == 1 && !c.Crash:
				c.Steps = append(c.Steps, Step{Op: "replay"})
			case k <= 4:
				c.Steps = append(c.Steps, Step{Op: "sync", Rec: bg.Draw(t, "rec")})
			default:
				c.Steps = append(c.Steps, Step{Op: "append", Rec: bg.Draw(t, "rec")})
			}
		}
		return c
	})
}

func Options(dir string, c Case) (*wal.Options, error) {
	opts := []wal.Option{wal.BasePath(dir), wal.WriterFactory(func(path string) (recordio.WriterI, error) {
		return recordio.NewFileWriter(recordio.Path(path), recordio.CompressionType(c.Comp), recordio.BufferSizeBytes(c.WBuf))
	})}
	if c.MaxSize > 0 {
		opts = append(opts, wal.MaximumWalFileSizeBytes(c.MaxSize))
	}
	if c.RBuf > 0 {
		opts = append(opts, wal.ReaderFactory(func(path string) (recordio.ReaderI, error) {
			return recordio.NewFileReader(recordio.ReaderPath(path), recordio.ReaderBufferSizeBytes(c.RBuf))
		}))
	}
	return wal.NewWriteAheadLogOptions(opts...)
}

func eq(a, b []byte) bool { return bytes.Equal(a, b) && (a == nil) == (b == nil) }

func show(b []byte) string {
	if b == nil {
		return "nil"
	}
	if len(b) > 16 {
		return fmt.Sprintf("%x…(%d)", b[:16], len(b))
	}
	return fmt.Sprintf("%x", b)
}

// ReplayAll replays the log in dir.
func ReplayAll(o *wal.Options) ([][]byte, error) {
	r, err := wal.NewReplayer(o)
	if err != nil {
		return nil, err
	}
	var got [][]byte
	err = r.Replay(func(rec []byte) error {
		var cp []byte
		if rec != nil {
			cp = append([]byte{}, rec...)
		}
		got = append(got, cp)
		return nil
	})
	return got, err
}

// CheckPrefix verifies got is a prefix of seq of length >= must.
func CheckPrefix(what string, got, seq [][]byte, must int) *h.Violation {
	if len(got) > len(seq) {
		return h.V("wal/"+what+"/extra", "%s: replay delivered %d records, only %d were appended", what, len(got), len(seq))
	}
	for i := range got {
		if !eq(got[i], seq[i]) {
			return h.V("wal/"+what+"/order-or-content", "%s: record %d = %s want %s", what, i, show(got[i]), show(seq[i]))
		}
	}
	if len(got) < must {
		return h.V("wal/"+what+"/lost", "%s: replay delivered %d records, %d were synced/rotated before", what, len(got), must)
	}
	return nil
}

func Prop(c Case, x *h.Ctx) *h.Violation {
	if c.Crash {
		return crashProp(c, x)
	}
	x.Label("leg=in-process")
	dir, done := h.Scratch("c07")
	defer done()
	o, err := Options(dir, c)
	if err != nil {
		panic(err)
	}
	w, err := wal.NewWriteAheadLog(o)
	if err != nil {
		return h.V("wal/open", "NewWriteAheadLog on an empty directory: %v", err)
	}
	var seq [][]byte
	durable := 0
	liveReplays, bigRec := 0, false
	for i, s := range c.Steps {
		switch s.Op {
		case "append", "sync":
			rec := s.Rec.Bytes()
			if len(rec) > c.WBuf || (c.MaxSize > 0 && uint64(len(rec)) > c.MaxSize) {
				bigRec = true
			}
			var err error
			if s.Op == "sync" {
				err = w.AppendSync(rec)
			} else {
				err = w.Append(rec)
			}
			if err != nil {
				return h.V("wal/append-err", "step %d %s(%s): %v", i, s.Op, show(rec), err)
			}
			seq = append(seq, rec)
			if s.Op == "sync" {
				durable = len(seq)
			}
		case "rotate":
			if _, err := w.Rotate(); err != nil {
				return h.V("wal/rotate-err", "step %d Rotate: %v", i, err)
			}
			durable = len(seq)
		case "replay":
			// replaying a live log sees what a kill at this instant would leave behind
			got, err := ReplayAll(o)
			if err != nil {
				return h.V("wal/live-replay/err", "step %d: replay of the live log failed: %v", i, err)
			}
			if v := CheckPrefix("live-replay", got, seq, durable); v != nil {
				v.Msg = fmt.Sprintf("step %d: %s", i, v.Msg)
				return v
			}
			liveReplays++
		}
	}
	if err := w.Close(); err != nil {
		return h.V("wal/close-err", "Close: %v", err)
	}
	got, err := ReplayAll(o)
	if err != nil {
		return h.V("wal/replay/err", "replay after Close failed: %v", err)
	}
	if v := CheckPrefix("replay", got, seq, len(seq)); v != nil {
		return v
	}
	files, _ := filepath.Glob(filepath.Join(dir, "*.wal"))
	for _, f := range files {
		if st, err := os.Stat(f); err == nil && st.Size() < 8 {
			return h.V("wal/short-file", "closed log contains file %s of %d bytes", f, st.Size())
		}
	}
	x.Labelf("files=%s", bucket(len(files)))
	x.Labelf("comp=%d", c.Comp)
	if liveReplays > 0 {
		x.Label("live-replay")
	}
	if bigRec {
		x.Label("record-larger-than-buffer-or-limit")
	}
	x.SetNonTrivial(len(files) >= 2 && len(seq) >= 3 && (liveReplays > 0 || bigRec))
	return nil
}

func bucket(n int) string {
	switch {
	case n <= 1:
		return "1"
	case n <= 4:
		return "2-4"
	default:
		return ">=5"
	}
}

func Shrink(c Case) []Case {
	if c.TraceFile != "" {
		return nil
	}
	var out []Case
	for _, st := range h.ShrinkList(c.Steps) {
		cp := c
		cp.Steps = st
		out = append(out, cp)
	}
	return out
}
