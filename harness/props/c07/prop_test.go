package c07

import (
	"testing"

	"verif/internal/h"
)

func TestProp(t *testing.T) {
	h.Run(t, h.Spec[Case]{ID: "C07", Gen: GenInProc(), Prop: Prop, Shrink: Shrink})
}
