package c07

import (
	"fmt"
	"os"
	"strings"

	"verif/internal/crash"
	"verif/internal/fsmodel"
	"verif/internal/h"
	"verif/internal/prog"
)

// crashProp is the crash leg: the same kind of program is executed by the child runner under strace and every
// system-call boundary is judged.
func crashProp(c Case, x *h.Ctx) *h.Violation {
	x.Label("leg=crash")
	p := &prog.Program{Kind: "wal", Wal: &prog.WalOpts{MaxSize: c.MaxSize, WBuf: c.WBuf, Comp: c.Comp}}
	for _, s := range c.Steps {
		switch s.Op {
		case "append", "sync":
			p.WalSteps = append(p.WalSteps, prog.Step{Op: s.Op, Rec: s.Rec})
		case "rotate":
			p.WalSteps = append(p.WalSteps, prog.Step{Op: "walrotate"})
		}
	}
	ops := p.Ops()
	work, done := h.Scratch("c07crash")
	defer done()
	var tr *crash.Trace
	var err error
	selfCheck := ""
	if c.TraceFile != "" {
		tr, err = crash.Load(p, c.TraceFile, c.TraceRoot, c.TraceAck)
		if err != nil {
			panic(h.Infra{Msg: fmt.Sprintf("cannot load trace %s: %v", c.TraceFile, err)})
		}
	} else {
		tr, err = crash.Run(p, work, 1<<20, nil)
		if err != nil {
			x.Discard("trace-failed: " + fmt.Sprintf("%.150s", err.Error()))
			return nil
		}
		selfCheck = tr.Root
		if tr.Exit != 0 {
			return h.V("wal/crash/child-died", "the traced child exited with status %d: %.800s", tr.Exit, tr.Stderr)
		}
	}
	// records of the append operations, by op index
	recOf := map[int][]byte{}
	for _, op := range ops {
		if op.Kind == "append" || op.Kind == "sync" {
			recOf[op.Index] = op.Step.Rec.Bytes()
		}
	}
	var viol *h.Violation
	report := func(v *h.Violation, seq int) {
		if viol != nil {
			return
		}
		viol = v
		if c.TraceFile == "" {
			rc := c
			rc.TraceFile, rc.TraceRoot, rc.TraceAck, rc.Only = crash.SaveTrace("C07", tr), tr.Root, tr.Ack, seq
			viol.ReplayCase = rc
		}
	}
	// system-call order: a synchronous append writes to the log file and fsyncs it before it returns
	cur, lastWrite, lastSync, n := -1, -1, -1, 0
	tr.OnEvent = func(a fsmodel.Applied, ev fsmodel.Event, st *crash.OpState) {
		n++
		if a.Op == "marker" {
			for _, ln := range strings.Split(strings.TrimSpace(a.Marker), "\n") {
				var idx int
				if _, err := fmt.Sscanf(ln, "call %d", &idx); err == nil && idx < len(ops) && ops[idx].Kind == "sync" {
					cur, lastWrite, lastSync = idx, -1, -1
				}
				if _, err := fmt.Sscanf(ln, "ret %d ok", &idx); err == nil && idx == cur {
					if lastWrite < 0 || lastSync < lastWrite {
						report(h.V("wal/crash/sync-without-fsync", "AppendSync (operation %d) returned, but between its call and return there was no write to the log file followed by an fsync of it (last write event %d, last fsync event %d)", idx, lastWrite, lastSync), n)
					}
					x.Label("sync-append-write-then-fsync-checked")
					cur = -1
				}
			}
			return
		}
		if cur >= 0 && strings.HasSuffix(a.Path, ".wal") {
			if a.Op == "write" {
				lastWrite = n
				if a.Synced {
					lastSync = n // O_SYNC / O_DSYNC descriptor: the write is its own fsync
				}
			}
			if a.Op == "fsync" {
				lastSync = n
			}
		}
	}
	files := 0
	_, werr := tr.Walk(nil, selfCheck, -1, func(b *crash.Boundary, fs *fsmodel.FS) error {
		if viol != nil || (c.Only > 0 && b.Seq != c.Only) {
			return nil
		}
		// the appended sequence: returned appends followed by the in-flight one; `must`: everything up to the last returned sync / rotate / close
		var seq [][]byte
		must := 0
		for _, op := range ops {
			if !b.Ops.Called[op.Index] {
				break
			}
			if r, ok := recOf[op.Index]; ok {
				seq = append(seq, r)
			}
			if b.Ops.Returned[op.Index] && (op.Kind == "sync" || op.Kind == "walrotate" || op.Kind == "close") {
				must = len(seq)
			}
		}
		inProtocol := b.Last.Changed && (b.Last.Op == "create" || (b.Last.Op == "write" && b.Last.N < 8))
		nf := 0
		for _, l := range fs.Listing() {
			if strings.HasSuffix(strings.Fields(l)[0], ".wal") {
				nf++
			}
		}
		if nf > files {
			files = nf
		}
		x.Sub(fmt.Sprintf("b%d", b.Seq), b.Last.Changed)
		if inProtocol {
			x.Label("boundary-inside-rotation-or-multi-write-record")
		}
		dir, err := crash.Materialize(fs, work)
		if err != nil {
			panic(h.Infra{Msg: "harness file operation failed: " + err.Error()})
		}
		defer os.RemoveAll(dir)
		o, err := Options(dir, c)
		if err != nil {
			panic(h.Infra{Msg: "harness file operation failed: " + err.Error()})
		}
		got, err := ReplayAll(o)
		if err != nil {
			report(h.V("wal/crash/replay-failed", "replay of the image after system call #%d (%s %s) failed: %v\nimage: %s", b.Seq, b.Last.Op, b.Last.Path, err, strings.Join(fs.Listing(), ", ")), b.Seq)
			return nil
		}
		if v := CheckPrefix("crash", got, seq, must); v != nil {
			v.Msg = fmt.Sprintf("image after system call #%d (%s %s): %s\nimage: %s", b.Seq, b.Last.Op, b.Last.Path, v.Msg, strings.Join(fs.Listing(), ", "))
			report(v, b.Seq)
		}
		return nil
	})
	if werr != nil {
		if c.TraceFile != "" {
			panic(werr)
		}
		x.Discard("emulator-self-check")
		return nil
	}
	if viol != nil {
		return viol
	}
	x.SetNonTrivial(files >= 2)
	return nil
}
