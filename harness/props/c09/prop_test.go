package c09

import (
	"testing"

	"verif/internal/h"
)

func TestProp(t *testing.T) {
	h.Run(t, h.Spec[Case]{ID: "C09", Gen: Gen(), Prop: Prop, CountSubs: true})
}

// FuzzProp is the native coverage-guided fuzz target (thorough tier).
func FuzzProp(f *testing.F) {
	h.Fuzz(f, h.Spec[Case]{ID: "C09", Gen: Gen(), Prop: Prop, CountSubs: true})
}
