// Package c09: a damaged SSTable data file is detected, never served as different data.
package c09

import (
	"bytes"
	"errors"
	"fmt"
	"os"
	"path/filepath"
	"sort"

	"github.com/thomasjungblut/go-sstables/sstables"
	"pgregory.net/rapid"
	"verif/internal/gen"
	"verif/internal/h"
	"verif/internal/rio"
	"verif/internal/tbl"
)

type Case struct {
	KVs      []tbl.KV `json:"kvs"`
	DataComp int      `json:"data_comp"`
	WriteBuf int      `json:"write_buf"`
}

func Gen() *rapid.Generator[Case] {
	return rapid.Custom(func(t *rapid.T) Case {
		var c Case
		c.DataComp = rapid.IntRange(0, 3).Draw(t, "dcomp")
		c.WriteBuf = rapid.SampledFrom([]int{16, 4096}).Draw(t, "wbuf")
		n := rapid.IntRange(2, 20).Draw(t, "n")
		keys := gen.SortedDistinct(rapid.SliceOfN(gen.KeyGen(false, 20), n, n).Draw(t, "keys"))
		// values: mostly non-empty 1..200 bytes (incl. leading 0x00, marker bytes); a few empty / nil
		vg := gen.BlobGen(true, true, []int{8, 32}, 200)
		sameLen := rapid.IntRange(0, 2).Draw(t, "samelen") == 0 // equal-length neighbours make record swaps possible
		for _, k := range keys {
			v := vg.Draw(t, "val")
			if sameLen && v.Pat != "" {
				v.Len, v.Tail = 24, nil
			}
			c.KVs = append(c.KVs, tbl.KV{K: k, V: v})
		}
		return c
	})
}

type mode struct {
	name string
	ro   tbl.ROpts
}

var modes = []mode{
	{"verify-on-load", tbl.ROpts{ReadBuf: 4096}},
	{"verify-on-read", tbl.ROpts{ReadBuf: 4096, SkipLoad: true, CheckReads: true}},
}

func show(b []byte) string {
	if b == nil {
		return "nil"
	}
	if len(b) > 20 {
		return fmt.Sprintf("%x…(%d)", b[:20], len(b))
	}
	return fmt.Sprintf("%x", b)
}

func Prop(c Case, x *h.Ctx) *h.Violation {
	dir, done := h.Scratch("c09")
	defer done()
	if err := tbl.Write(dir, c.KVs, tbl.WOpts{DataComp: c.DataComp, WriteBuf: c.WriteBuf, BloomN: 100}); err != nil {
		return h.V("tabledamage/write-err", "writing table: %v", err)
	}
	dataPath := filepath.Join(dir, sstables.DataFileName)
	orig, err := os.ReadFile(dataPath)
	if err != nil {
		panic(h.Infra{Msg: "harness file operation failed: " + err.Error()})
	}
	keys := make([][]byte, len(c.KVs))
	vals := make([][]byte, len(c.KVs))
	for i, kv := range c.KVs {
		keys[i] = kv.K
		vals[i] = kv.V.Bytes()
	}
	// locate records with the independent header decoder (for labels and swaps only)
	type span struct{ start, hdrEnd, end int }
	var spans []span
	for p := 8; p < len(orig); {
		hd, ok := rio.ParseHeader(orig[p:])
		if !ok {
			panic(h.Infra{Msg: "harness decoder out of step with the on-disk format (not a verdict): " + fmt.Sprintf("independent decoder cannot parse data file at %d", p)})
		}
		pl := int(hd.USize)
		if c.DataComp != 0 {
			pl = int(hd.CSize)
		}
		if hd.Nil {
			pl = 0
		}
		spans = append(spans, span{p, p + hd.Len, p + hd.Len + pl})
		p += hd.Len + pl
	}
	if len(spans) != len(keys) {
		panic(h.Infra{Msg: "harness decoder out of step with the on-disk format (not a verdict): " + fmt.Sprintf("data file has %d records, table has %d keys", len(spans), len(keys))})
	}
	region := func(pos int) string {
		if pos < 8 {
			return "file-header"
		}
		i := sort.Search(len(spans), func(i int) bool { return spans[i].end > pos })
		if i < len(spans) && pos < spans[i].hdrEnd {
			return "record-header"
		}
		return "payload"
	}
	x.Labelf("dcomp=%d", c.DataComp)

	fileHeaderDamaged := false
	okValue := func(i int, got []byte) bool {
		if len(vals[i]) == 0 {
			// empty and nil values carry a zero checksum by format design; they must stay empty where the
			// record header (which is CRC-protected) fixes the payload length: without compression, and as long
			// as the file header still says "version 4" (older versions have no header checksum and no nil flag)
			return c.DataComp != 0 || fileHeaderDamaged || len(got) == 0
		}
		return bytes.Equal(got, vals[i])
	}
	// judge one damaged copy under one mode
	judge := func(desc string, m mode) *h.Violation {
		fp := "tabledamage/" + m.name
		r, err := tbl.Open(dir, m.ro)
		if err != nil {
			return nil // detected at open
		}
		defer r.Close()
		for i, k := range keys {
			got, err := r.Get(k)
			if err != nil {
				continue // detected at this read
			}
			if !okValue(i, got) {
				return h.V(fp+"/get", "%s: Get(%x) returned %s without error, written %s", desc, k, show(got), show(vals[i]))
			}
		}
		checkIt := func(what string, it sstables.SSTableIteratorI, err error, lo int) *h.Violation {
			if err != nil {
				return nil
			}
			for i := lo; ; i++ {
				k, v, err := it.Next()
				if err != nil {
					// detected - or the end of the scan, which must not come before the last key: a scan that stops
					// early without an error serves a shorter table ("the affected scan step fails, or the original
					// value is returned")
					if errors.Is(err, sstables.Done) && i < len(keys) {
						return h.V(fp+"/"+what+"-short", "%s: %s ended without error after %d of %d keys (next key %x)", desc, what, i-lo, len(keys)-lo, keys[i])
					}
					return nil
				}
				if i >= len(keys) || !bytes.Equal(k, keys[i]) {
					return h.V(fp+"/"+what+"-keys", "%s: %s step %d returned key %x", desc, what, i-lo, k)
				}
				if !okValue(i, v) {
					return h.V(fp+"/"+what, "%s: %s returned key %x value %s without error, written %s", desc, what, k, show(v), show(vals[i]))
				}
			}
		}
		it, err := r.Scan()
		if v := checkIt("scan", it, err, 0); v != nil {
			return v
		}
		mid := len(keys) / 2
		it, err = r.ScanRange(keys[mid], keys[len(keys)-1])
		if v := checkIt("scan-range", it, err, mid); v != nil {
			return v
		}
		return nil
	}
	try := func(desc string, damaged []byte, key string, nt bool) *h.Violation {
		fileHeaderDamaged = len(damaged) < 8 || !bytes.Equal(damaged[:8], orig[:8])
		if err := os.WriteFile(dataPath, damaged, 0o644); err != nil {
			panic(h.Infra{Msg: "harness file operation failed: " + err.Error()})
		}
		for _, m := range modes {
			x.Sub(key+"/"+m.name, nt)
			if v := judge(desc, m); v != nil {
				return v
			}
		}
		return nil
	}

	// sanity: the pristine table reads back under both modes (also validates the oracle)
	for _, m := range modes {
		r, err := tbl.Open(dir, m.ro)
		if err != nil {
			return h.V("tabledamage/pristine", "pristine table does not open in mode %s: %v", m.name, err)
		}
		for i, k := range keys {
			got, err := r.Get(k)
			if err != nil || !bytes.Equal(got, vals[i]) {
				r.Close()
				return h.V("tabledamage/pristine", "pristine Get(%x)=(%s,%v) want %s", k, show(got), err, show(vals[i]))
			}
		}
		r.Close()
	}

	buf := make([]byte, len(orig))
	// 1. every byte x replacement values
	for pos := 0; pos < len(orig); pos++ {
		o := orig[pos]
		reg := region(pos)
		seen := map[byte]bool{o: true}
		for _, nv := range []byte{o ^ 1, o ^ 0x80, 0x00, 0xff, 0x91, 0x8d, 0x4c} {
			if seen[nv] {
				continue
			}
			seen[nv] = true
			copy(buf, orig)
			buf[pos] = nv
			x.Label("byte:" + reg)
			if v := try(fmt.Sprintf("byte %d (%s) %02x->%02x", pos, reg, o, nv), buf, fmt.Sprintf("b%d=%d", pos, nv), true); v != nil {
				return v
			}
		}
	}
	// 2. every truncation length
	for cut := 0; cut < len(orig); cut++ {
		x.Label("truncation")
		if v := try(fmt.Sprintf("data file cut at %d of %d", cut, len(orig)), orig[:cut], fmt.Sprintf("cut%d", cut), true); v != nil {
			return v
		}
	}
	// 3. swap adjacent records of equal length
	for i := 0; i+1 < len(spans); i++ {
		a, b := spans[i], spans[i+1]
		if a.end-a.start != b.end-b.start || bytes.Equal(orig[a.start:a.end], orig[b.start:b.end]) {
			continue
		}
		copy(buf, orig)
		copy(buf[a.start:], orig[b.start:b.end])
		copy(buf[b.start:], orig[a.start:a.end])
		x.Label("swap")
		if v := try(fmt.Sprintf("records %d and %d swapped", i, i+1), buf, fmt.Sprintf("swap%d", i), true); v != nil {
			return v
		}
	}
	if err := os.WriteFile(dataPath, orig, 0o644); err != nil {
		panic(h.Infra{Msg: "harness file operation failed: " + err.Error()})
	}
	return nil
}

// Multi is the light variant used by the native fuzz target: ONE damaged copy per execution, with several bytes
// altered anywhere in the data file and/or a truncation (multi-byte damage, which the exhaustive enumeration above
// does not cover). The oracle is the same: whatever is returned without error for a key with a non-empty value must
// be the written value.
type Multi struct {
	Table   Case  `json:"table"`
	Damages []Dmg `json:"damages"`
	Cut     int   `json:"cut,omitempty"` // >0: additionally truncate to Cut % size bytes
}

type Dmg struct {
	Pos int  `json:"pos"`
	Val byte `json:"val"`
}

func GenMulti() *rapid.Generator[Multi] {
	return rapid.Custom(func(t *rapid.T) Multi {
		m := Multi{Table: Gen().Draw(t, "table")}
		n := rapid.IntRange(1, 6).Draw(t, "ndamage")
		for i := 0; i < n; i++ {
			m.Damages = append(m.Damages, Dmg{Pos: rapid.IntRange(0, 1<<16).Draw(t, "pos"), Val: rapid.Byte().Draw(t, "val")})
		}
		if rapid.IntRange(0, 3).Draw(t, "cut") == 0 {
			m.Cut = rapid.IntRange(1, 1<<16).Draw(t, "cutat")
		}
		return m
	})
}

func PropMulti(m Multi, x *h.Ctx) *h.Violation {
	c := m.Table
	dir, done := h.Scratch("c09m")
	defer done()
	if err := tbl.Write(dir, c.KVs, tbl.WOpts{DataComp: c.DataComp, WriteBuf: c.WriteBuf, BloomN: 100}); err != nil {
		return h.V("tabledamage/write-err", "writing table: %v", err)
	}
	dataPath := filepath.Join(dir, sstables.DataFileName)
	orig, err := os.ReadFile(dataPath)
	if err != nil {
		panic(h.Infra{Msg: "harness file operation failed: " + err.Error()})
	}
	buf := append([]byte{}, orig...)
	desc := ""
	for _, d := range m.Damages {
		if len(buf) <= 8 {
			break
		}
		// the 8 file-header bytes are left alone here (the exhaustive enumeration covers them with its replacement
		// values): turning the version field into 1..3 selects the legacy decoders, which have no header checksum and
		// allocate whatever a damaged length field says - the process then dies of memory exhaustion, which is not
		// "a different value returned" but kills the fuzz worker
		p := 8 + d.Pos%(len(buf)-8)
		buf[p] = d.Val
		desc += fmt.Sprintf("byte %d=%02x ", p, d.Val)
	}
	if m.Cut > 0 && len(buf) > 0 {
		buf = buf[:m.Cut%len(buf)]
		desc += fmt.Sprintf("cut at %d", len(buf))
	}
	if bytes.Equal(buf, orig) {
		return nil
	}
	if err := os.WriteFile(dataPath, buf, 0o644); err != nil {
		panic(h.Infra{Msg: "harness file operation failed: " + err.Error()})
	}
	fileHeaderDamaged := len(buf) < 8 || !bytes.Equal(buf[:8], orig[:8])
	okVal := func(got, want []byte) bool {
		if len(want) == 0 {
			return c.DataComp != 0 || fileHeaderDamaged || len(got) == 0
		}
		return bytes.Equal(got, want)
	}
	for _, md := range modes {
		r, err := tbl.Open(dir, md.ro)
		if err != nil {
			continue
		}
		for i, kv := range c.KVs {
			want := kv.V.Bytes()
			got, err := r.Get(kv.K)
			if err != nil {
				continue
			}
			if !okVal(got, want) {
				r.Close()
				return h.V("tabledamage/multi/"+md.name+"/get", "%s: Get(key #%d %x) returned %s without error, written %s", desc, i, kv.K, show(got), show(want))
			}
		}
		if it, err := r.Scan(); err == nil {
			for i := 0; ; i++ {
				k, v, err := it.Next()
				if err != nil {
					break
				}
				if i >= len(c.KVs) || !bytes.Equal(k, c.KVs[i].K) {
					r.Close()
					return h.V("tabledamage/multi/"+md.name+"/scan-keys", "%s: Scan step %d returned key %x", desc, i, k)
				}
				if want := c.KVs[i].V.Bytes(); !okVal(v, want) {
					r.Close()
					return h.V("tabledamage/multi/"+md.name+"/scan", "%s: Scan returned key %x value %s without error, written %s", desc, k, show(v), show(want))
				}
			}
		}
		r.Close()
	}
	x.NonTrivial()
	return nil
}
