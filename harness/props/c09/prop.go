// Package c09: a damaged SSTable data file is detected, never served as different data.
package c09

import (
	"bytes"
	"fmt"
	"os"
	"path/filepath"
	"sort"

	"github.com/thomasjungblut/go-sstables/sstables"
	"pgregory.net/rapid"
	"verif/internal/gen"
	"verif/internal/h"
	"verif/internal/rio"
	"verif/internal/tbl"
)

type Case struct {
	KVs      []tbl.KV `json:"kvs"`
	DataComp int      `json:"data_comp"`
	WriteBuf int      `json:"write_buf"`
}

func Gen() *rapid.Generator[Case] {
	return rapid.Custom(func(t *rapid.T) Case {
		var c Case
		c.DataComp = rapid.IntRange(0, 3).Draw(t, "dcomp")
		c.WriteBuf = rapid.SampledFrom([]int{16, 4096}).Draw(t, "wbuf")
		n := rapid.IntRange(2, 20).Draw(t, "n")
		keys := gen.SortedDistinct(rapid.SliceOfN(gen.KeyGen(false, 20), n, n).Draw(t, "keys"))
		// values: mostly non-empty 1..200 bytes (incl. leading 0x00, marker bytes); a few empty / nil
		vg := gen.BlobGen(true, true, []int{8, 32}, 200)
		sameLen := rapid.IntRange(0, 2).Draw(t, "samelen") == 0 // equal-length neighbours make record swaps possible
		for _, k := range keys {
			v := vg.Draw(t, "val")
			if sameLen && v.Pat != "" {
				v.Len, v.Tail = 24, nil
			}
			c.KVs = append(c.KVs, tbl.KV{K: k, V: v})
		}
		return c
	})
}

type mode struct {
	name string
	ro   tbl.ROpts
}

var modes = []mode{
	{"verify-on-load", tbl.ROpts{ReadBuf: 4096}},
	{"verify-on-read", tbl.ROpts{ReadBuf: 4096, SkipLoad: true, CheckReads: true}},
}

func show(b []byte) string {
	if b == nil {
		return "nil"
	}
	if len(b) > 20 {
		return fmt.Sprintf("%x…(%d)", b[:20], len(b))
	}
	return fmt.Sprintf("%x", b)
}

func Prop(c Case, x *h.Ctx) *h.Violation {
	dir, done := h.Scratch("c09")
	defer done()
	if err := tbl.Write(dir, c.KVs, tbl.WOpts{DataComp: c.DataComp, WriteBuf: c.WriteBuf, BloomN: 100}); err != nil {
		return h.V("tabledamage/write-err", "writing table: %v", err)
	}
	dataPath := filepath.Join(dir, sstables.DataFileName)
	orig, err := os.ReadFile(dataPath)
	if err != nil {
		panic(err)
	}
	keys := make([][]byte, len(c.KVs))
	vals := make([][]byte, len(c.KVs))
	for i, kv := range c.KVs {
		keys[i] = kv.K
		vals[i] = kv.V.Bytes()
	}
	// locate records with the independent header decoder (for labels and swaps only)
	type span struct{ start, hdrEnd, end int }
	var spans []span
	for p := 8; p < len(orig); {
		hd, ok := rio.ParseHeader(orig[p:])
		if !ok {
			return h.V("tabledamage/harness", "independent decoder cannot parse data file at %d", p)
		}
		pl := int(hd.USize)
		if c.DataComp != 0 {
			pl = int(hd.CSize)
		}
		if hd.Nil {
			pl = 0
		}
		spans = append(spans, span{p, p + hd.Len, p + hd.Len + pl})
		p += hd.Len + pl
	}
	if len(spans) != len(keys) {
		return h.V("tabledamage/harness", "data file has %d records, table has %d keys", len(spans), len(keys))
	}
	region := func(pos int) string {
		if pos < 8 {
			return "file-header"
		}
		i := sort.Search(len(spans), func(i int) bool { return spans[i].end > pos })
		if i < len(spans) && pos < spans[i].hdrEnd {
			return "record-header"
		}
		return "payload"
	}
	x.Labelf("dcomp=%d", c.DataComp)

	okValue := func(i int, got []byte) bool {
		if len(vals[i]) == 0 {
			// empty and nil values carry a zero checksum by format design; they must stay empty where the
			// record header (which is CRC-protected) fixes the payload length, i.e. without compression
			return c.DataComp != 0 || len(got) == 0
		}
		return bytes.Equal(got, vals[i])
	}
	// judge one damaged copy under one mode
	judge := func(desc string, m mode) *h.Violation {
		fp := "tabledamage/" + m.name
		r, err := tbl.Open(dir, m.ro)
		if err != nil {
			return nil // detected at open
		}
		defer r.Close()
		for i, k := range keys {
			got, err := r.Get(k)
			if err != nil {
				continue // detected at this read
			}
			if !okValue(i, got) {
				return h.V(fp+"/get", "%s: Get(%x) returned %s without error, written %s", desc, k, show(got), show(vals[i]))
			}
		}
		checkIt := func(what string, it sstables.SSTableIteratorI, err error, lo int) *h.Violation {
			if err != nil {
				return nil
			}
			for i := lo; ; i++ {
				k, v, err := it.Next()
				if err != nil {
					return nil // Done or detected
				}
				if i >= len(keys) || !bytes.Equal(k, keys[i]) {
					return h.V(fp+"/"+what+"-keys", "%s: %s step %d returned key %x", desc, what, i-lo, k)
				}
				if !okValue(i, v) {
					return h.V(fp+"/"+what, "%s: %s returned key %x value %s without error, written %s", desc, what, k, show(v), show(vals[i]))
				}
			}
		}
		it, err := r.Scan()
		if v := checkIt("scan", it, err, 0); v != nil {
			return v
		}
		mid := len(keys) / 2
		it, err = r.ScanRange(keys[mid], keys[len(keys)-1])
		if v := checkIt("scan-range", it, err, mid); v != nil {
			return v
		}
		return nil
	}
	try := func(desc string, damaged []byte, key string, nt bool) *h.Violation {
		if err := os.WriteFile(dataPath, damaged, 0o644); err != nil {
			panic(err)
		}
		for _, m := range modes {
			x.Sub(key+"/"+m.name, nt)
			if v := judge(desc, m); v != nil {
				return v
			}
		}
		return nil
	}

	// sanity: the pristine table reads back under both modes (also validates the oracle)
	for _, m := range modes {
		r, err := tbl.Open(dir, m.ro)
		if err != nil {
			return h.V("tabledamage/pristine", "pristine table does not open in mode %s: %v", m.name, err)
		}
		for i, k := range keys {
			got, err := r.Get(k)
			if err != nil || !bytes.Equal(got, vals[i]) {
				r.Close()
				return h.V("tabledamage/pristine", "pristine Get(%x)=(%s,%v) want %s", k, show(got), err, show(vals[i]))
			}
		}
		r.Close()
	}

	buf := make([]byte, len(orig))
	// 1. every byte x replacement values
	for pos := 0; pos < len(orig); pos++ {
		o := orig[pos]
		reg := region(pos)
		seen := map[byte]bool{o: true}
		for _, nv := range []byte{o ^ 1, o ^ 0x80, 0x00, 0xff, 0x91, 0x8d, 0x4c} {
			if seen[nv] {
				continue
			}
			seen[nv] = true
			copy(buf, orig)
			buf[pos] = nv
			x.Label("byte:" + reg)
			if v := try(fmt.Sprintf("byte %d (%s) %02x->%02x", pos, reg, o, nv), buf, fmt.Sprintf("b%d=%d", pos, nv), true); v != nil {
				return v
			}
		}
	}
	// 2. every truncation length
	for cut := 0; cut < len(orig); cut++ {
		x.Label("truncation")
		if v := try(fmt.Sprintf("data file cut at %d of %d", cut, len(orig)), orig[:cut], fmt.Sprintf("cut%d", cut), true); v != nil {
			return v
		}
	}
	// 3. swap adjacent records of equal length
	for i := 0; i+1 < len(spans); i++ {
		a, b := spans[i], spans[i+1]
		if a.end-a.start != b.end-b.start || bytes.Equal(orig[a.start:a.end], orig[b.start:b.end]) {
			continue
		}
		copy(buf, orig)
		copy(buf[a.start:], orig[b.start:b.end])
		copy(buf[b.start:], orig[a.start:a.end])
		x.Label("swap")
		if v := try(fmt.Sprintf("records %d and %d swapped", i, i+1), buf, fmt.Sprintf("swap%d", i), true); v != nil {
			return v
		}
	}
	if err := os.WriteFile(dataPath, orig, 0o644); err != nil {
		panic(err)
	}
	return nil
}
