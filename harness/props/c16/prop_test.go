package c16

import (
	"testing"

	"verif/internal/h"
)

func TestProp(t *testing.T) {
	h.Run(t, h.Spec[Case]{ID: "C16", Gen: Gen(), Prop: Prop, Enumerate: Enumerate})
}
