// Package c16: skip-list map and merge heap behave as a sorted map and a sorted k-way merge.
package c16

import (
	"bytes"
	"errors"
	"fmt"
	"sort"

	"github.com/thomasjungblut/go-sstables/pq"
	"github.com/thomasjungblut/go-sstables/skiplist"
	"pgregory.net/rapid"
	"verif/internal/gen"
	"verif/internal/h"
)

type KV struct {
	K int    `json:"k"`
	V string `json:"v"`
}

type Case struct {
	Kind string `json:"kind"` // skip-int | skip-int-rev | skip-str | skip-bytes | pq
	// skip list: distinct keys in insertion order; ByteKeys for str/bytes kinds
	IntKeys  []int    `json:"int_keys,omitempty"`
	ByteKeys [][]byte `json:"byte_keys,omitempty"`
	// pq: ascending inputs
	Inputs [][]KV `json:"inputs,omitempty"`
	// skip-storm: that many inserts into short-lived maps (node heights are random inside the library: rare heights
	// only turn up after millions of inserts)
	Storm int `json:"storm,omitempty"`
}

// diffCmp is consistent but returns magnitudes (a-b scaled), not just -1/0/1: the contract only fixes the sign.
type diffCmp struct{}

func (diffCmp) Compare(a, b int) int { return (a - b) * 3 }

// memCmp orders byte strings like bytes.Compare but returns the difference of the first differing bytes (memcmp style).
type memCmp struct{}

func (memCmp) Compare(a, b []byte) int {
	for i := 0; i < len(a) && i < len(b); i++ {
		if a[i] != b[i] {
			return int(a[i]) - int(b[i])
		}
	}
	return len(a) - len(b)
}

type revCmp struct{}

func (revCmp) Compare(a, b int) int {
	if a > b {
		return -1
	} else if a < b {
		return 1
	}
	return 0
}

func Gen() *rapid.Generator[Case] {
	return rapid.Custom(func(t *rapid.T) Case {
		if rapid.IntRange(0, 59).Draw(t, "storm") == 0 {
			return Case{Kind: "skip-storm", Storm: 200000}
		}
		kind := rapid.SampledFrom([]string{"skip-int", "skip-int-rev", "skip-int-diff", "skip-str", "skip-bytes", "skip-bytes-memcmp", "pq", "pq"}).Draw(t, "kind")
		c := Case{Kind: kind}
		maxN := 60
		if h.Thorough() {
			maxN = 2000
		}
		switch kind {
		case "skip-int", "skip-int-rev", "skip-int-diff":
			n := rapid.IntRange(0, maxN).Draw(t, "n")
			c.IntKeys = rapid.SliceOfNDistinct(rapid.IntRange(-3*n-3, 3*n+3), n, n, rapid.ID[int]).Draw(t, "keys")
		case "skip-str", "skip-bytes", "skip-bytes-memcmp":
			n := rapid.IntRange(0, maxN/2).Draw(t, "n")
			ks := rapid.SliceOfN(gen.KeyGen(true, 40), n, n).Draw(t, "keys")
			seen := map[string]bool{}
			for _, k := range ks {
				if !seen[string(k)] {
					seen[string(k)] = true
					c.ByteKeys = append(c.ByteKeys, k)
				}
			}
		case "pq":
			ni := rapid.IntRange(0, 8).Draw(t, "inputs")
			id := 0
			for i := 0; i < ni; i++ {
				m := rapid.IntRange(0, 12).Draw(t, "len")
				ks := rapid.SliceOfNDistinct(rapid.IntRange(0, 20), m, m, rapid.ID[int]).Draw(t, "ks")
				sort.Ints(ks)
				in := []KV{}
				for _, k := range ks {
					in = append(in, KV{K: k, V: fmt.Sprintf("v%d", id)})
					id++
				}
				c.Inputs = append(c.Inputs, in)
			}
		}
		return c
	})
}

// Enumerate yields every permutation of up to maxN distinct int keys (all insertion orders).
func Enumerate(emit func(Case) bool) {
	maxN := 5
	if h.Thorough() {
		maxN = 7
	}
	for n := 0; n <= maxN; n++ {
		base := make([]int, n)
		for i := range base {
			base[i] = i*2 + 1 // odd keys; even numbers are the gaps
		}
		var rec func(k int) bool
		rec = func(k int) bool {
			if k == n {
				kind := []string{"skip-int", "skip-int-rev", "skip-int-diff"}[n%3]
				return emit(Case{Kind: kind, IntKeys: append([]int{}, base...)})
			}
			for i := k; i < n; i++ {
				base[k], base[i] = base[i], base[k]
				if !rec(k + 1) {
					return false
				}
				base[k], base[i] = base[i], base[k]
			}
			return true
		}
		if !rec(0) {
			return
		}
	}
}

func Prop(c Case, x *h.Ctx) *h.Violation {
	x.Label("kind=" + c.Kind)
	switch c.Kind {
	case "skip-int":
		return checkSkip(x, c.IntKeys, skiplist.Comparator[int](skiplist.OrderedComparator[int]{}), intGaps(c.IntKeys), func(a int) string { return fmt.Sprint(a) })
	case "skip-int-rev":
		return checkSkip(x, c.IntKeys, skiplist.Comparator[int](revCmp{}), intGaps(c.IntKeys), func(a int) string { return fmt.Sprint(a) })
	case "skip-int-diff":
		return checkSkip(x, c.IntKeys, skiplist.Comparator[int](diffCmp{}), intGaps(c.IntKeys), func(a int) string { return fmt.Sprint(a) })
	case "skip-bytes-memcmp":
		return checkSkip(x, c.ByteKeys, skiplist.Comparator[[]byte](memCmp{}), probeSet(c.ByteKeys), func(a []byte) string { return fmt.Sprintf("%x", a) })
	case "skip-str":
		ks := make([]string, len(c.ByteKeys))
		var ps []string
		for i, b := range c.ByteKeys {
			ks[i] = string(b)
		}
		for _, p := range probeSet(c.ByteKeys) {
			ps = append(ps, string(p))
		}
		return checkSkip(x, ks, skiplist.Comparator[string](skiplist.OrderedComparator[string]{}), ps, func(a string) string { return fmt.Sprintf("%q", a) })
	case "skip-bytes":
		return checkSkip(x, c.ByteKeys, skiplist.Comparator[[]byte](skiplist.BytesComparator{}), probeSet(c.ByteKeys), func(a []byte) string { return fmt.Sprintf("%x", a) })
	case "pq":
		return checkPQ(x, c.Inputs)
	case "skip-storm":
		return checkStorm(x, c.Storm)
	}
	panic("bad kind " + c.Kind)
}

func probeSet(keys [][]byte) [][]byte {
	cp := make([][]byte, len(keys))
	copy(cp, keys)
	ps := gen.Probes(gen.SortedDistinct(cp))
	if len(ps) > 40 {
		// deterministic thinning: keep every ceil(len/40)-th
		step := (len(ps) + 39) / 40
		var out [][]byte
		for i := 0; i < len(ps); i += step {
			out = append(out, ps[i])
		}
		ps = out
	}
	return ps
}

func intGaps(keys []int) []int {
	s := append([]int{}, keys...)
	sort.Ints(s)
	set := map[int]bool{}
	for _, k := range s {
		set[k-1] = true
		set[k] = true
		set[k+1] = true
	}
	if len(s) == 0 {
		set[0] = true
	}
	var out []int
	for k := range set {
		out = append(out, k)
	}
	sort.Ints(out)
	if len(out) > 40 {
		step := (len(out) + 39) / 40
		var o2 []int
		for i := 0; i < len(out); i += step {
			o2 = append(o2, out[i])
		}
		out = o2
	}
	return out
}

func drain[K any, V any](it skiplist.IteratorI[K, V], limit int) ([]K, []V, error) {
	var ks []K
	var vs []V
	for i := 0; ; i++ {
		k, v, err := it.Next()
		if errors.Is(err, skiplist.Done) {
			// Done must be sticky
			if _, _, err2 := it.Next(); !errors.Is(err2, skiplist.Done) {
				return ks, vs, fmt.Errorf("Next after Done returned %v", err2)
			}
			return ks, vs, nil
		}
		if err != nil {
			return ks, vs, err
		}
		if i > limit {
			return ks, vs, fmt.Errorf("iterator yields more than %d entries", limit)
		}
		ks = append(ks, k)
		vs = append(vs, v)
	}
}

func checkSkip[K any](x *h.Ctx, keys []K, cmp skiplist.Comparator[K], probes []K, show func(K) string) *h.Violation {
	m := skiplist.NewSkipListMap[K, int](cmp)
	for i, k := range keys {
		m.Insert(k, i)
	}
	type ent struct {
		k K
		v int
	}
	sorted := make([]ent, len(keys))
	for i, k := range keys {
		sorted[i] = ent{k, i}
	}
	sort.SliceStable(sorted, func(i, j int) bool { return cmp.Compare(sorted[i].k, sorted[j].k) < 0 })
	if m.Size() != len(keys) {
		return h.V("skiplist/size", "Size()=%d want %d", m.Size(), len(keys))
	}
	find := func(p K) (int, bool) {
		i := sort.Search(len(sorted), func(i int) bool { return cmp.Compare(sorted[i].k, p) >= 0 })
		return i, i < len(sorted) && cmp.Compare(sorted[i].k, p) == 0
	}
	same := func(what string, gotK []K, gotV []int, want []ent) *h.Violation {
		if len(gotK) != len(want) {
			return h.V("skiplist/"+what, "%s: got %d entries want %d", what, len(gotK), len(want))
		}
		for i := range want {
			if cmp.Compare(gotK[i], want[i].k) != 0 || gotV[i] != want[i].v {
				return h.V("skiplist/"+what, "%s: entry %d = (%s,%d) want (%s,%d)", what, i, show(gotK[i]), gotV[i], show(want[i].k), want[i].v)
			}
		}
		return nil
	}
	it, err := m.Iterator()
	if err != nil {
		return h.V("skiplist/iterator-err", "Iterator: %v", err)
	}
	gk, gv, err := drain(it, len(keys)+1)
	if err != nil {
		return h.V("skiplist/iterator-err", "full iteration: %v", err)
	}
	if v := same("full", gk, gv, sorted); v != nil {
		return v
	}
	absent, strictBoth := 0, 0
	for _, p := range probes {
		i, present := find(p)
		if !present {
			absent++
		}
		if m.Contains(p) != present {
			return h.V("skiplist/contains", "Contains(%s)=%v want %v", show(p), !present, present)
		}
		v, err := m.Get(p)
		if present {
			if err != nil || v != sorted[i].v {
				return h.V("skiplist/get", "Get(%s)=(%d,%v) want (%d,nil)", show(p), v, err, sorted[i].v)
			}
		} else if !errors.Is(err, skiplist.NotFound) {
			return h.V("skiplist/get", "Get(%s) of absent key: err=%v want NotFound", show(p), err)
		}
		it, err := m.IteratorStartingAt(p)
		if err != nil {
			return h.V("skiplist/iterator-err", "IteratorStartingAt: %v", err)
		}
		gk, gv, err := drain(it, len(keys)+1)
		if err != nil {
			return h.V("skiplist/iterator-err", "starting-at iteration: %v", err)
		}
		if v := same("starting-at", gk, gv, sorted[i:]); v != nil {
			return v
		}
	}
	for _, lo := range probes {
		for _, hi := range probes {
			it, err := m.IteratorBetween(lo, hi)
			if cmp.Compare(lo, hi) > 0 {
				if err == nil {
					return h.V("skiplist/between-inverted", "IteratorBetween(%s,%s) with lower > upper returned no error", show(lo), show(hi))
				}
				continue
			}
			if err != nil {
				return h.V("skiplist/iterator-err", "IteratorBetween(%s,%s): %v", show(lo), show(hi), err)
			}
			gk, gv, err := drain(it, len(keys)+1)
			if err != nil {
				return h.V("skiplist/iterator-err", "between iteration: %v", err)
			}
			i, lp := find(lo)
			j, hp := find(hi)
			end := j
			if hp {
				end = j + 1
			}
			if v := same(fmt.Sprintf("between(%s,%s)", show(lo), show(hi)), gk, gv, sorted[i:end]); v != nil {
				v.Fingerprint = "skiplist/between"
				return v
			}
			if !lp && !hp && i > 0 && j < len(sorted) && i < j {
				strictBoth++
			}
		}
	}
	x.Labelf("n=%s", bucket(len(keys)))
	x.SetNonTrivial(len(keys) >= 2 && absent > 0 && strictBoth > 0)
	return nil
}

func bucket(n int) string {
	switch {
	case n == 0:
		return "0"
	case n == 1:
		return "1"
	case n <= 7:
		return "2-7"
	case n <= 60:
		return "8-60"
	default:
		return ">60"
	}
}

type sliceIt struct {
	ctx int
	kvs []KV
	pos int
}

func (s *sliceIt) Next() (int, string, error) {
	if s.pos >= len(s.kvs) {
		return 0, "", pq.Done
	}
	kv := s.kvs[s.pos]
	s.pos++
	return kv.K, kv.V, nil
}
func (s *sliceIt) Context() int { return s.ctx }

func checkPQ(x *h.Ctx, inputs [][]KV) *h.Violation {
	var its []pq.IteratorWithContext[int, string, int]
	total := 0
	srcs := make([]*sliceIt, len(inputs))
	for i, in := range inputs {
		srcs[i] = &sliceIt{ctx: i, kvs: in}
		its = append(its, srcs[i])
		total += len(in)
	}
	q, err := pq.NewPriorityQueue[int, string, int](skiplist.OrderedComparator[int]{}, its)
	if err != nil {
		return h.V("pq/init", "NewPriorityQueue: %v", err)
	}
	next := make([]int, len(inputs)) // per input: index of the next expected element
	prev := 0
	dryWithThree := false
	for n := 0; ; n++ {
		k, v, c, err := q.Next()
		if errors.Is(err, pq.Done) {
			if n != total {
				return h.V("pq/lost", "queue ended after %d of %d elements", n, total)
			}
			if _, _, _, err2 := q.Next(); !errors.Is(err2, pq.Done) {
				return h.V("pq/done-not-sticky", "Next after Done: %v", err2)
			}
			break
		}
		if err != nil {
			return h.V("pq/err", "Next: %v", err)
		}
		if n >= total {
			return h.V("pq/extra", "queue returned more than %d elements: (%d,%s,%d)", total, k, v, c)
		}
		if c < 0 || c >= len(inputs) || next[c] >= len(inputs[c]) {
			return h.V("pq/ctx", "element (%d,%s) attributed to input %d which has no element left", k, v, c)
		}
		want := inputs[c][next[c]]
		if want.K != k || want.V != v {
			return h.V("pq/order-within-input", "input %d: got (%d,%s) want its next element (%d,%s)", c, k, v, want.K, want.V)
		}
		next[c]++
		if n > 0 && k < prev {
			return h.V("pq/descending", "key %d after %d", k, prev)
		}
		prev = k
		if next[c] == len(inputs[c]) {
			live := 0
			for i := range inputs {
				if next[i] < len(inputs[i]) {
					live++
				}
			}
			if live >= 3 {
				dryWithThree = true
			}
		}
	}
	dups := false
	seen := map[int]bool{}
	for _, in := range inputs {
		for _, kv := range in {
			if seen[kv.K] {
				dups = true
			}
			seen[kv.K] = true
		}
	}
	x.Labelf("inputs=%d", len(inputs))
	if dups {
		x.Label("dup-keys-across-inputs")
	}
	x.SetNonTrivial(dryWithThree && dups)
	_ = bytes.Compare
	return nil
}

// checkStorm inserts n ascending keys into maps of 1000 entries each and checks size and order of every map. The keys
// are unremarkable; the point is the number of inserts, i.e. of random node heights drawn inside the library.
func checkStorm(x *h.Ctx, n int) *h.Violation {
	x.SetNonTrivial(n >= 100000)
	const per = 1000
	for done := 0; done < n; done += per {
		m := skiplist.NewSkipListMap[int, int](skiplist.OrderedComparator[int]{})
		for i := 0; i < per; i++ {
			m.Insert((i*7919)%per, i)
		}
		if m.Size() != per {
			return h.V("skiplist/storm-size", "after %d inserts of distinct keys Size() = %d", per, m.Size())
		}
		it, err := m.Iterator()
		if err != nil {
			return h.V("skiplist/storm-iterator", "Iterator: %v", err)
		}
		prev := -1
		for cnt := 0; ; cnt++ {
			k, _, err := it.Next()
			if err != nil {
				if cnt != per {
					return h.V("skiplist/storm-count", "full iteration yields %d of %d entries (%v)", cnt, per, err)
				}
				break
			}
			if k <= prev {
				return h.V("skiplist/storm-order", "iteration not ascending: %d after %d", k, prev)
			}
			prev = k
		}
	}
	return nil
}
