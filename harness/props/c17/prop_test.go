package c17

import (
	"testing"

	"verif/internal/h"
)

func TestProp(t *testing.T) {
	h.Run(t, h.Spec[Case]{ID: "C17", Gen: Gen(), Prop: Prop, MayDie: true, Shrink: Shrink})
}
