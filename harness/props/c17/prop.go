// Package c17: a SimpleDB call that returns an error has no effect; string and byte APIs agree.
package c17

import (
	"bytes"
	"errors"
	"fmt"

	"github.com/thomasjungblut/go-sstables/simpledb"
	"pgregory.net/rapid"
	"verif/internal/h"
	"verif/internal/sdb"
)

type Step struct {
	Op   string `json:"op"`             // put delete get rotate reopen
	Key  int    `json:"key"`            // index into Keys; -1 = nil key (empty string in the string flavour)
	VNil bool   `json:"vnil,omitempty"` // nil value (empty string in the string flavour)
	VLen int    `json:"vlen,omitempty"` // 0 = empty non-nil value
}

type Case struct {
	Keys     [][]byte `json:"keys"` // may contain the empty key
	MemLimit uint64   `json:"mem_limit"`
	Steps    []Step   `json:"steps"`
	Crash    bool     `json:"crash,omitempty"`
	// replay of the crash leg
	TraceFile string `json:"trace_file,omitempty"`
	TraceRoot string `json:"trace_root,omitempty"`
	TraceAck  string `json:"trace_ack,omitempty"`
	Only      int    `json:"only,omitempty"`
}

func Gen() *rapid.Generator[Case] {
	return rapid.Custom(func(t *rapid.T) Case {
		var c Case
		c.Keys = sdb.Universe().Draw(t, "keys")
		if len(c.Keys) > 6 {
			c.Keys = c.Keys[:6]
		}
		c.Keys = append(c.Keys, []byte{}, []byte{0xff, 0xfe, 0x80}, []byte("h\xc3\x28llo"))
		c.MemLimit = rapid.SampledFrom([]uint64{16, 256, 1 << 20}).Draw(t, "memlimit")
		c.Crash = rapid.IntRange(0, 14).Draw(t, "crashleg") == 0
		n := rapid.IntRange(1, 40).Draw(t, "n")
		if c.Crash {
			n = rapid.IntRange(1, 16).Draw(t, "ncrash")
		}
		for i := 0; i < n; i++ {
			st := Step{Key: rapid.IntRange(-1, len(c.Keys)-1).Draw(t, "key")}
			k := rapid.IntRange(0, 19).Draw(t, "opkind")
			switch {
			case k < 9:
				st.Op = "put"
				switch rapid.IntRange(0, 5).Draw(t, "vkind") {
				case 0:
					st.VNil = true
				case 1:
					st.VLen = 0
				case 2:
					st.VLen = 65536
				default:
					st.VLen = rapid.SampledFrom([]int{1, 5, 40, 300}).Draw(t, "vlen")
				}
			case k < 12:
				st.Op = "delete"
			case k < 15:
				st.Op = "get"
			case k < 18:
				st.Op = "rotate"
			default:
				st.Op = "reopen"
			}
			c.Steps = append(c.Steps, st)
		}
		return c
	})
}

func Shrink(c Case) []Case {
	if c.TraceFile != "" {
		return nil
	}
	var out []Case
	for _, st := range h.ShrinkList(c.Steps) {
		cp := c
		cp.Steps = st
		out = append(out, cp)
	}
	return out
}

type outcome struct {
	err   string // "" | "notfound" | "rejected" | other error text
	value []byte
}

func classify(err error) string {
	switch {
	case err == nil:
		return ""
	case errors.Is(err, simpledb.ErrNotFound):
		return "notfound"
	default:
		// which error a flavour uses to reject is not part of the statement, only that both reject
		return "rejected"
	}
}

type runner struct {
	c                                         Case
	bytes                                     bool
	dir                                       string
	db                                        *simpledb.DB
	model                                     map[string][]byte
	gidx                                      int
	opts                                      sdb.Opts
	sawRej                                    bool
	okAfterRej, flushAfterRej, reopenAfterRej bool
}

func (r *runner) key(i int) []byte {
	if i < 0 {
		return nil
	}
	return r.c.Keys[i]
}

func (r *runner) get(k []byte) outcome {
	if r.bytes {
		v, err := r.db.GetBytes(k)
		return outcome{classify(err), v}
	}
	v, err := r.db.Get(string(k))
	o := outcome{classify(err), nil}
	if err == nil {
		o.value = []byte(v)
	}
	return o
}

// observe compares the whole universe with the model.
func (r *runner) observe(at string) *h.Violation {
	for i := -1; i < len(r.c.Keys); i++ {
		k := r.key(i)
		o := r.get(k)
		want, ok := r.model[string(k)]
		flav := "string"
		if r.bytes {
			flav = "bytes"
		}
		switch {
		case o.err == "rejected" && len(k) > 0:
			return h.V("api/get-error", "%s (%s API): Get(%x) returned an error", at, flav, k)
		case o.err == "rejected":
			continue // an empty key may be rejected by Get as long as both flavours agree (checked per step)
		case ok && o.err == "notfound":
			return h.V("api/lost", "%s (%s API): Get(%x) not found, want %.30q", at, flav, k, want)
		case !ok && o.err == "":
			return h.V("api/effect-of-rejected-or-changed-by-flush", "%s (%s API): Get(%x) = %.30q although the model has no such key (a call that returned an error took effect, or a read changed after flush/restart)", at, flav, k, o.value)
		case ok && !bytes.Equal(o.value, want):
			return h.V("api/stale", "%s (%s API): Get(%x) = %.30q want %.30q", at, flav, k, o.value, want)
		}
	}
	return nil
}

func (r *runner) step(i int, st Step) (outcome, *h.Violation) {
	at := fmt.Sprintf("step %d %s", i, st.Op)
	k := r.key(st.Key)
	r.gidx++
	switch st.Op {
	case "put":
		var v []byte
		if !st.VNil {
			v = []byte{}
			if st.VLen > 0 {
				v = sdb.Value(r.gidx, st.VLen)
			}
		}
		var err error
		if r.bytes {
			err = r.db.PutBytes(k, v)
		} else {
			err = r.db.Put(string(k), string(v))
		}
		o := outcome{err: classify(err)}
		invalid := len(k) == 0 || len(v) == 0
		if invalid && err == nil {
			flav := "Put"
			if r.bytes {
				flav = "PutBytes"
			}
			what := "value"
			if len(k) == 0 {
				what = "key"
			}
			return o, h.V("api/empty-accepted/"+flav+"/"+what, "%s: %s(key %x nil=%v, value len %d nil=%v) returned nil; empty or nil keys and values must be rejected", at, flav, k, k == nil, len(v), v == nil)
		}
		if !invalid && err != nil {
			return o, h.V("api/put-error", "%s: valid Put(%x, %d bytes) returned %v", at, k, len(v), err)
		}
		if err == nil {
			r.model[string(k)] = v
			if r.sawRej {
				r.okAfterRej = true
			}
		} else {
			r.sawRej = true
		}
		return o, r.observe(at)
	case "delete":
		var err error
		if r.bytes {
			err = r.db.DeleteBytes(k)
		} else {
			err = r.db.Delete(string(k))
		}
		o := outcome{err: classify(err)}
		if err == nil {
			delete(r.model, string(k))
		} else {
			r.sawRej = true
		}
		return o, r.observe(at)
	case "get":
		return r.get(k), nil
	case "rotate":
		if err := r.db.VerifRotate(); err != nil {
			return outcome{}, h.V("api/rotate-error", "%s: %v", at, err)
		}
		if err := r.db.VerifWaitFlushIdle(); err != nil {
			return outcome{}, h.V("api/flush-error", "%s: %v", at, err)
		}
		if r.sawRej {
			r.flushAfterRej = true
		}
		return outcome{}, r.observe(at + " (after flush)")
	case "reopen":
		if err := r.db.Close(); err != nil {
			return outcome{}, h.V("api/close-error", "%s: %v", at, err)
		}
		db, err := sdb.Open(r.dir, r.opts)
		if err != nil {
			r.db = nil
			return outcome{}, h.V("api/reopen-error", "%s: reopen failed: %v", at, err)
		}
		r.db = db
		if r.sawRej {
			r.reopenAfterRej = true
		}
		return outcome{}, r.observe(at + " (after restart)")
	}
	panic("bad op")
}

func Prop(c Case, x *h.Ctx) *h.Violation {
	if c.Crash {
		return crashProp(c, x)
	}
	var outs [2][]outcome
	var rs [2]*runner
	for f := 0; f < 2; f++ {
		dir, done := h.Scratch("c17")
		defer done()
		r := &runner{c: c, bytes: f == 1, dir: dir, model: map[string][]byte{}, opts: sdb.Opts{MemLimit: c.MemLimit, Threshold: 2, MaxSize: 1 << 40, Ratio: 0.2, WBuf: 4096, RBuf: 4096}}
		rs[f] = r
		db, err := sdb.Open(dir, r.opts)
		if err != nil {
			return h.V("api/open-error", "%v", err)
		}
		r.db = db
		for i, st := range c.Steps {
			o, v := r.step(i, st)
			if v != nil {
				if r.db != nil {
					_ = r.db.Close()
				}
				return v
			}
			outs[f] = append(outs[f], o)
		}
		if err := r.db.Close(); err != nil {
			return h.V("api/close-error", "final Close: %v", err)
		}
	}
	for i := range c.Steps {
		a, b := outs[0][i], outs[1][i]
		if a.err != b.err || !bytes.Equal(a.value, b.value) {
			return h.V("api/flavours-differ", "step %d %s key#%d: string API -> (%q, %.30q), byte API -> (%q, %.30q)", i, c.Steps[i].Op, c.Steps[i].Key, a.err, a.value, b.err, b.value)
		}
	}
	r := rs[1]
	if r.sawRej {
		x.Label("rejected-call")
	}
	x.SetNonTrivial(r.sawRej && r.okAfterRej && r.flushAfterRej && r.reopenAfterRej)
	return nil
}
