package c17

import "verif/internal/h"

func crashProp(c Case, x *h.Ctx) *h.Violation { return nil }
