package c17

import (
	"verif/internal/gen"
	"verif/internal/h"
	"verif/internal/prog"
	"verif/internal/sdb"
	"verif/props/c02"
)

// crashProp is the crash leg: the program (with its rejected calls) runs in the child runner under strace and every
// crash image - in particular those taken after a rejected call - must recover to the model of the acknowledged calls.
func crashProp(c Case, x *h.Ctx) *h.Violation {
	x.Label("leg=crash")
	p := prog.Program{Kind: "db"}
	for _, k := range c.Keys {
		if len(k) > 0 {
			p.Keys = append(p.Keys, k)
		}
	}
	opts := sdb.Opts{MemLimit: c.MemLimit, Threshold: 2, MaxSize: 1 << 40, Ratio: 0.2, WBuf: 4096, RBuf: 4096}
	se := prog.Session{Opts: opts, Wait: true}
	rejected := false
	for i, st := range c.Steps {
		var key gen.Blob
		if st.Key < 0 {
			key = gen.Blob{Nil: true}
		} else {
			key = gen.BlobOf(c.Keys[st.Key])
		}
		switch st.Op {
		case "put":
			val := gen.Blob{Lit: []byte{}}
			if st.VNil {
				val = gen.Blob{Nil: true}
			} else if st.VLen > 0 {
				val = gen.Blob{Pat: "rand", Len: st.VLen, Seed: uint64(i + 1)}
			}
			if st.VNil || st.VLen == 0 || len(key.Bytes()) == 0 {
				rejected = true
			}
			se.Steps = append(se.Steps, prog.Step{Op: "put", RawSet: true, RawKey: key, RawVal: val})
		case "delete":
			se.Steps = append(se.Steps, prog.Step{Op: "delete", RawSet: true, RawKey: key})
		case "get":
			se.Steps = append(se.Steps, prog.Step{Op: "get", RawSet: true, RawKey: key})
		case "rotate":
			se.Steps = append(se.Steps, prog.Step{Op: "rotate"})
		case "reopen":
			p.Sessions = append(p.Sessions, se)
			se = prog.Session{Opts: opts, Wait: true}
		}
	}
	p.Sessions = append(p.Sessions, se)
	if rejected {
		x.Label("crash-images-after-a-rejected-call")
	}
	cc := c02.Case{Program: p, TraceFile: c.TraceFile, TraceRoot: c.TraceRoot, TraceAck: c.TraceAck, Only: c.Only}
	v := c02.Execute("C17", cc, x, c02.Judge)
	if v != nil {
		if rc, ok := v.ReplayCase.(c02.Case); ok {
			r := c
			r.TraceFile, r.TraceRoot, r.TraceAck, r.Only = rc.TraceFile, rc.TraceRoot, rc.TraceAck, rc.Only
			v.ReplayCase = r
		}
		v.Fingerprint = "api/" + v.Fingerprint
	}
	return v
}
