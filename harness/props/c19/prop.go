// Package c19: descriptors, mappings and goroutines stay bounded and are released by Close.
package c19

import (
	"bufio"
	"errors"
	"fmt"
	"os"
	"path/filepath"
	"runtime"
	"runtime/debug"
	"strings"
	"time"

	"github.com/thomasjungblut/go-sstables/recordio"
	"github.com/thomasjungblut/go-sstables/sstables"
	"github.com/thomasjungblut/go-sstables/wal"
	"pgregory.net/rapid"
	"verif/internal/gen"
	"verif/internal/h"
	"verif/internal/sdb"
	"verif/internal/tbl"
)

type DBStep struct {
	Op   string `json:"op"` // put delete rotate compact reopen
	Key  int    `json:"key,omitempty"`
	VLen int    `json:"vlen,omitempty"`
}

type TStep struct {
	Op string `json:"op"` // get scan scan-abandon range range-abandon startingat
	N  int    `json:"n,omitempty"`
}

type Case struct {
	Kind string `json:"kind"` // db | table | recordio | wal
	// db
	Opts  sdb.Opts `json:"opts,omitempty"`
	Steps []DBStep `json:"steps,omitempty"`
	// table
	NKeys  int     `json:"nkeys,omitempty"`
	Loader string  `json:"loader,omitempty"`
	TSteps []TStep `json:"tsteps,omitempty"`
	// recordio / wal
	NRecs  int `json:"nrecs,omitempty"`
	Comp   int `json:"comp,omitempty"`
	ReadTo int `json:"read_to,omitempty"` // the sequential reader is closed after this many records
}

func Gen() *rapid.Generator[Case] {
	return rapid.Custom(func(t *rapid.T) Case {
		var c Case
		c.Kind = rapid.SampledFrom([]string{"db", "db", "db", "table", "table", "recordio", "wal"}).Draw(t, "kind")
		switch c.Kind {
		case "db":
			c.Opts = sdb.OptsGen(true).Draw(t, "opts")
			c.Opts.MemLimit = rapid.SampledFrom([]uint64{64, 256, 1 << 20}).Draw(t, "mem")
			c.Opts.WBuf, c.Opts.RBuf = 4096, 4096
			cycles := rapid.IntRange(10, 40).Draw(t, "cycles")
			if h.Thorough() {
				cycles = rapid.IntRange(10, 60).Draw(t, "cyclesT")
			}
			for i := 0; i < cycles; i++ {
				for j := rapid.IntRange(1, 4).Draw(t, "writes"); j > 0; j-- {
					if rapid.IntRange(0, 3).Draw(t, "del") == 0 {
						c.Steps = append(c.Steps, DBStep{Op: "delete", Key: rapid.IntRange(0, 7).Draw(t, "k")})
					} else {
						c.Steps = append(c.Steps, DBStep{Op: "put", Key: rapid.IntRange(0, 7).Draw(t, "k"), VLen: rapid.SampledFrom([]int{5, 50, 300}).Draw(t, "vlen")})
					}
				}
				c.Steps = append(c.Steps, DBStep{Op: "rotate"})
				switch k := rapid.IntRange(0, 9).Draw(t, "after"); {
				case k < 5:
					c.Steps = append(c.Steps, DBStep{Op: "compact"})
				case k == 5:
					c.Steps = append(c.Steps, DBStep{Op: "reopen"})
				}
			}
		case "table":
			c.NKeys = rapid.IntRange(1, 60).Draw(t, "nkeys")
			c.Loader = rapid.SampledFrom([]string{"slice", "skiplist", "disk", "map4"}).Draw(t, "loader")
			n := rapid.IntRange(1, 12).Draw(t, "nsteps")
			for i := 0; i < n; i++ {
				c.TSteps = append(c.TSteps, TStep{
					Op: rapid.SampledFrom([]string{"get", "scan", "scan-abandon", "range", "range-abandon", "startingat"}).Draw(t, "top"),
					N:  rapid.IntRange(0, c.NKeys).Draw(t, "n"),
				})
			}
		default:
			c.NRecs = rapid.IntRange(0, 40).Draw(t, "nrecs")
			c.Comp = rapid.IntRange(0, 3).Draw(t, "comp")
			c.ReadTo = rapid.IntRange(0, c.NRecs+1).Draw(t, "readto")
		}
		return c
	})
}

func Shrink(c Case) []Case {
	var out []Case
	for _, st := range h.ShrinkList(c.Steps) {
		cp := c
		cp.Steps = st
		out = append(out, cp)
	}
	for _, st := range h.ShrinkList(c.TSteps) {
		cp := c
		cp.TSteps = st
		out = append(out, cp)
	}
	return out
}

// held counts descriptors and memory mappings of this process that point below dir.
func held(dir string) (fds, maps int, detail []string) {
	ents, _ := os.ReadDir("/proc/self/fd")
	for _, e := range ents {
		l, err := os.Readlink("/proc/self/fd/" + e.Name())
		if err == nil && strings.HasPrefix(l, dir+"/") {
			fds++
			detail = append(detail, "fd "+l)
		}
	}
	f, err := os.Open("/proc/self/maps")
	if err == nil {
		sc := bufio.NewScanner(f)
		for sc.Scan() {
			if i := strings.Index(sc.Text(), dir+"/"); i >= 0 {
				maps++
				detail = append(detail, "map "+sc.Text()[i:])
			}
		}
		f.Close()
	}
	return
}

// libGoroutines returns the stacks of goroutines that have a go-sstables frame (other than the caller's).
func libGoroutines() []string {
	buf := make([]byte, 1<<20)
	n := runtime.Stack(buf, true)
	var out []string
	for i, g := range strings.Split(string(buf[:n]), "\n\n") {
		if i == 0 {
			continue // the calling goroutine
		}
		if strings.Contains(g, "github.com/thomasjungblut/go-sstables/") {
			out = append(out, g)
		}
	}
	return out
}

// settledGoroutines waits (generously) for goroutines that are on their way out; a leaked goroutine never leaves.
func settledGoroutines() []string {
	var gs []string
	for i := 0; i < 400; i++ {
		gs = libGoroutines()
		if len(gs) == 0 {
			return nil
		}
		runtime.Gosched()
		time.Sleep(5 * time.Millisecond)
	}
	return gs
}

func released(dir, what string) *h.Violation {
	fds, maps, detail := held(dir)
	if fds != 0 || maps != 0 {
		return h.V("resources/"+what+"/not-released", "after Close of the %s: %d descriptors and %d mappings still point into its directory: %v", what, fds, maps, detail)
	}
	return nil
}

func Prop(c Case, x *h.Ctx) *h.Violation {
	// no garbage collection while a case runs: a descriptor or mapping that Close forgot must not be "released" behind
	// its back by a finalizer of an object that merely became unreachable (os.File and the mmap reader have one)
	old := debug.SetGCPercent(-1)
	defer func() {
		debug.SetGCPercent(old)
		runtime.GC()
	}()
	dir, done := h.Scratch("c19")
	defer done()
	x.Label("kind=" + c.Kind)
	switch c.Kind {
	case "db":
		return dbProp(c, x, dir)
	case "table":
		return tableProp(c, x, dir)
	case "recordio":
		return rioProp(c, x, dir)
	default:
		return walProp(c, x, dir)
	}
}

func dbProp(c Case, x *h.Ctx, dir string) *h.Violation {
	if gs := settledGoroutines(); len(gs) > 0 {
		// a precondition of the measurement, not an observation about this case: the previous case's own check after
		// its Close decides about leaks
		panic(h.Infra{Msg: "library goroutines alive before the case started: " + strings.SplitN(gs[0], "\n", 2)[0]})
	}
	db, err := sdb.Open(dir, c.Opts)
	if err != nil {
		return h.V("resources/db/open-error", "%v", err)
	}
	gidx, cycles, compactions, reopens := 0, 0, 0, 0
	closeAndCheck := func(at string) *h.Violation {
		if err := db.Close(); err != nil {
			return h.V("resources/db/close-error", "%s: %v", at, err)
		}
		if v := released(dir, "db"); v != nil {
			v.Msg = at + ": " + v.Msg
			return v
		}
		if gs := settledGoroutines(); len(gs) > 0 {
			return h.V("resources/db/goroutine-leak", "%s: %d goroutine(s) started by the database are still running after Close returned:\n%s", at, len(gs), gs[0])
		}
		return nil
	}
	for i, st := range c.Steps {
		gidx++
		k := []byte(fmt.Sprintf("key-%d", st.Key))
		at := fmt.Sprintf("step %d %s", i, st.Op)
		switch st.Op {
		case "put":
			if err := db.PutBytes(k, sdb.Value(gidx, st.VLen)); err != nil {
				_ = db.Close()
				return h.V("resources/db/write-error", "%s: %v", at, err)
			}
		case "delete":
			if err := db.DeleteBytes(k); err != nil {
				_ = db.Close()
				return h.V("resources/db/write-error", "%s: %v", at, err)
			}
		case "rotate", "compact":
			var err error
			if st.Op == "rotate" {
				err = db.VerifRotate()
				cycles++
			}
			if err == nil {
				err = db.VerifWaitFlushIdle()
			}
			if err == nil && st.Op == "compact" && !c.Opts.Ticker {
				var sel []string
				sel, _, err = db.VerifCompactOnce()
				if len(sel) >= 2 {
					compactions++
				}
			}
			if err != nil {
				_ = db.Close()
				return h.V("resources/db/cycle-error", "%s: %v", at, err)
			}
			if !c.Opts.Ticker {
				// quiescent point: flusher idle, no compaction in progress
				live := len(db.VerifTables())
				fds, maps, detail := held(dir)
				if fds+maps > 2*live+4 {
					_ = db.Close()
					return h.V("resources/db/unbounded", "%s: %d descriptors + %d mappings held with %d live tables after %d cycles (bound 2*tables+4): %v", at, fds, maps, live, cycles, detail)
				}
			}
		case "reopen":
			if v := closeAndCheck(at); v != nil {
				return v
			}
			reopens++
			db, err = sdb.Open(dir, c.Opts)
			if err != nil {
				return h.V("resources/db/open-error", "%s: %v", at, err)
			}
		}
	}
	if v := closeAndCheck("final close"); v != nil {
		return v
	}
	// the directory can be removed and re-created by the same process
	if err := os.RemoveAll(dir); err != nil {
		return h.V("resources/db/dir-not-removable", "RemoveAll after Close: %v", err)
	}
	if err := os.MkdirAll(dir, 0o755); err != nil {
		panic(h.Infra{Msg: "harness file operation failed: " + err.Error()})
	}
	db, err = sdb.Open(dir, c.Opts)
	if err != nil {
		return h.V("resources/db/open-error", "open of a fresh directory at the same path: %v", err)
	}
	if _, err := db.GetBytes([]byte("key-0")); err == nil {
		_ = db.Close()
		return h.V("resources/db/stale-state", "a fresh directory at the same path still serves old data")
	}
	if v := closeAndCheck("close of the fresh database"); v != nil {
		return v
	}
	if c.Opts.Ticker {
		x.Label("db-with-ticker")
	}
	x.Labelf("compactions=%s", bucket(compactions))
	x.SetNonTrivial(cycles >= 10 && (compactions >= 3 || c.Opts.Ticker))
	return nil
}

func bucket(n int) string {
	switch {
	case n == 0:
		return "0"
	case n < 3:
		return "1-2"
	default:
		return ">=3"
	}
}

func tableProp(c Case, x *h.Ctx, dir string) *h.Violation {
	var kvs []tbl.KV
	for i := 0; i < c.NKeys; i++ {
		kvs = append(kvs, tbl.KV{K: []byte(fmt.Sprintf("%04d", i)), V: gen.Blob{Pat: "text", Len: 10 + i%50, Seed: uint64(i)}})
	}
	if err := tbl.Write(dir, kvs, tbl.WOpts{WriteBuf: 4096, BloomN: 100}); err != nil {
		return h.V("resources/table/write-error", "%v", err)
	}
	if v := released(dir, "table writer"); v != nil {
		return v
	}
	r, err := tbl.Open(dir, tbl.ROpts{Loader: c.Loader, ReadBuf: 4096})
	if err != nil {
		return h.V("resources/table/open-error", "%v", err)
	}
	abandoned := false
	for i, st := range c.TSteps {
		var it sstables.SSTableIteratorI
		var err error
		key := []byte(fmt.Sprintf("%04d", st.N%c.NKeys))
		limit := -1
		switch st.Op {
		case "get":
			_, err = r.Get(key)
			if err != nil {
				_ = r.Close()
				return h.V("resources/table/read-error", "step %d Get: %v", i, err)
			}
			continue
		case "scan":
			it, err = r.Scan()
		case "scan-abandon":
			it, err = r.Scan()
			limit = st.N
		case "range":
			it, err = r.ScanRange(key, []byte("9999"))
		case "range-abandon":
			it, err = r.ScanRange([]byte("0000"), []byte("9999"))
			limit = st.N
		case "startingat":
			it, err = r.ScanStartingAt(key)
		}
		if err != nil {
			_ = r.Close()
			return h.V("resources/table/read-error", "step %d %s: %v", i, st.Op, err)
		}
		for n := 0; limit < 0 || n < limit; n++ {
			if _, _, err := it.Next(); err != nil {
				break
			}
		}
		if limit >= 0 {
			abandoned = true
		}
	}
	if err := r.Close(); err != nil {
		return h.V("resources/table/close-error", "%v", err)
	}
	if v := released(dir, "table reader"); v != nil {
		return v
	}
	x.Label("loader=" + c.Loader)
	x.SetNonTrivial(abandoned)
	return nil
}

func rioProp(c Case, x *h.Ctx, dir string) *h.Violation {
	path := filepath.Join(dir, "f.rio")
	w, err := recordio.NewFileWriter(recordio.Path(path), recordio.CompressionType(c.Comp), recordio.BufferSizeBytes(4096))
	if err != nil {
		panic(err)
	}
	if err := w.Open(); err != nil {
		return h.V("resources/recordio/open-error", "%v", err)
	}
	var offs []uint64
	for i := 0; i < c.NRecs; i++ {
		o, err := w.Write(gen.Expand(uint64(i), i*7%300))
		if err != nil {
			return h.V("resources/recordio/write-error", "%v", err)
		}
		offs = append(offs, o)
	}
	if err := w.Close(); err != nil {
		return h.V("resources/recordio/close-error", "%v", err)
	}
	if v := released(dir, "recordio writer"); v != nil {
		return v
	}
	r, err := recordio.NewFileReader(recordio.ReaderPath(path), recordio.ReaderBufferSizeBytes(4096))
	if err != nil {
		panic(err)
	}
	if err := r.Open(); err != nil {
		return h.V("resources/recordio/open-error", "%v", err)
	}
	for i := 0; i < c.ReadTo; i++ {
		if i%3 == 2 {
			_ = r.SkipNext()
		} else if _, err := r.ReadNext(); err != nil {
			break
		}
	}
	if err := r.Close(); err != nil {
		return h.V("resources/recordio/close-error", "%v", err)
	}
	if v := released(dir, "recordio reader"); v != nil {
		return v
	}
	m, err := recordio.NewMemoryMappedReaderWithPath(path)
	if err != nil {
		return h.V("resources/recordio/open-error", "%v", err)
	}
	if err := m.Open(); err != nil {
		return h.V("resources/recordio/open-error", "%v", err)
	}
	for i, o := range offs {
		if i >= c.ReadTo {
			break
		}
		if _, err := m.ReadNextAt(o); err != nil {
			_ = m.Close()
			return h.V("resources/recordio/read-error", "%v", err)
		}
		_, _, _ = m.SeekNext(o + 1)
	}
	if err := m.Close(); err != nil {
		return h.V("resources/recordio/close-error", "%v", err)
	}
	if v := released(dir, "mmap reader"); v != nil {
		return v
	}
	x.SetNonTrivial(c.NRecs >= 3 && c.ReadTo > 0 && c.ReadTo < c.NRecs)
	return nil
}

func walProp(c Case, x *h.Ctx, dir string) *h.Violation {
	o, err := wal.NewWriteAheadLogOptions(wal.BasePath(dir), wal.MaximumWalFileSizeBytes(200),
		wal.WriterFactory(func(p string) (recordio.WriterI, error) {
			return recordio.NewFileWriter(recordio.Path(p), recordio.CompressionType(c.Comp), recordio.BufferSizeBytes(4096))
		}),
		wal.ReaderFactory(func(p string) (recordio.ReaderI, error) {
			return recordio.NewFileReader(recordio.ReaderPath(p), recordio.ReaderBufferSizeBytes(4096))
		}))
	if err != nil {
		panic(err)
	}
	w, err := wal.NewWriteAheadLog(o)
	if err != nil {
		return h.V("resources/wal/open-error", "%v", err)
	}
	for i := 0; i < c.NRecs; i++ {
		if err := w.AppendSync(gen.Expand(uint64(i), 5+i*7%100)); err != nil {
			return h.V("resources/wal/append-error", "%v", err)
		}
	}
	if err := w.Close(); err != nil {
		return h.V("resources/wal/close-error", "%v", err)
	}
	if v := released(dir, "wal appender"); v != nil {
		return v
	}
	stop := errors.New("stop")
	n := 0
	rerr := w.Replay(func([]byte) error {
		n++
		if n > c.ReadTo {
			return stop // a replay that is cut short by the callback must release its readers too
		}
		return nil
	})
	if rerr != nil && !errors.Is(rerr, stop) {
		return h.V("resources/wal/replay-error", "%v", rerr)
	}
	if v := released(dir, "wal replayer"); v != nil {
		return v
	}
	files, _ := filepath.Glob(filepath.Join(dir, "*.wal"))
	x.SetNonTrivial(len(files) >= 2)
	return nil
}
