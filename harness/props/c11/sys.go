package c11

import "verif/internal/h"

// SysCase is the system leg (failing data/index writers inside flush and compaction); filled in later.
type SysCase struct{}

func sysProp(c Case, x *h.Ctx) *h.Violation { return nil }
