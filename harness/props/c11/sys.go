package c11

import (
	"encoding/json"
	"fmt"
	"os"
	"os/exec"
	"path/filepath"
	"strconv"
	"strings"
	"syscall"
	"time"
	"verif/internal/names"

	"pgregory.net/rapid"
	"verif/internal/crash"
	"verif/internal/h"
	"verif/internal/prog"
	"verif/props/c02"
)

// SysCase is the system leg: a simpledb program runs in a child process in which the data or index writer of the
// f-th flush or c-th compaction fails at a chosen record position (build-tag hook). Afterwards the parent opens the
// directory without faults: its content must equal the model of the acknowledged operations.
type SysCase struct {
	Program prog.Program `json:"program"`
	// Syscall: instead of a failing table writer, the When-th write(2) call of some thread of the child fails with
	// Errno (strace fault injection; the call is not executed). Which write that is depends on the schedule - any of
	// them is a legitimate I/O failure, and the oracle does not depend on which one it was.
	Syscall *SyscallFault `json:"syscall,omitempty"`
}

type SyscallFault struct {
	// File: only calls on that file count ("" = any call of the process): "wal" = the N-th log file, "data" / "index" /
	// "bloom" / "meta" = that file of the N-th flushed table (names taken from the repository's constants).
	File  string `json:"file,omitempty"`
	N     int    `json:"n,omitempty"`
	When  int    `json:"when"`
	Errno string `json:"errno"` // EIO | ENOSPC
	// Call: "" = write(2); "read" = read/pread64 (only with File: table and log files are read back by compactions,
	// recovery and scans); "sync" = fsync/fdatasync.
	Call string `json:"call,omitempty"`
}

func SysGen() *rapid.Generator[Case] {
	return rapid.Custom(func(t *rapid.T) Case {
		p := c02.ProgramGen(false).Draw(t, "program")
		for i := range p.Sessions {
			p.Sessions[i].NoClose = false
		}
		if rapid.Bool().Draw(t, "syscallfault") {
			sf := &SyscallFault{Errno: rapid.SampledFrom([]string{"EIO", "ENOSPC"}).Draw(t, "errno")}
			sf.Call = rapid.SampledFrom([]string{"", "", "", "read", "read", "sync", "meta"}).Draw(t, "call")
			if sf.Call == "meta" {
				// directory-level calls of the flush / compaction / recovery protocols; untargeted (most take no descriptor)
				sf.When = rapid.IntRange(1, 40).Draw(t, "when")
				sf.Errno = rapid.SampledFrom([]string{"EIO", "ENOSPC", "EACCES"}).Draw(t, "errno2")
			} else if sf.Call == "read" || rapid.IntRange(0, 3).Draw(t, "targeted") > 0 {
				// a named file of the n-th flushed table or the n-th write-ahead log file
				n := rapid.IntRange(0, 4).Draw(t, "n") // log files count from 0, tables from 1
				files := []string{"data", "index", "bloom", "meta", "wal"}
				if sf.Call == "sync" {
					files = []string{"wal"}
				}
				sf.File = rapid.SampledFrom(files).Draw(t, "file")
				sf.N = n
				sf.When = rapid.IntRange(1, 6).Draw(t, "when")
			} else if sf.Call == "sync" {
				sf.When = rapid.IntRange(1, 30).Draw(t, "when")
			} else {
				sf.When = rapid.IntRange(4, 120).Draw(t, "when")
			}
			if sf.Call == "read" {
				sf.Errno = "EIO"
			}
			return Case{Kind: "system", Sys: &SysCase{Program: p, Syscall: sf}}
		}
		p.Fault = &prog.WriterFault{
			Target: rapid.SampledFrom([]string{"flush", "compaction", "compaction"}).Draw(t, "target"),
			Nth:    rapid.IntRange(0, 3).Draw(t, "nth"),
			Which:  rapid.SampledFrom([]string{"data", "index"}).Draw(t, "which"),
			Pos:    rapid.IntRange(-1, 4).Draw(t, "pos"), // -1: the Close (final flush) of that writer fails
			Sticky: rapid.Bool().Draw(t, "sticky"),
		}
		return Case{Kind: "system", Sys: &SysCase{Program: p}}
	})
}

// sysProp: a child that does not finish is only reported as a hang when it does not finish twice, the second time with
// a doubled allowance (a program of a few dozen operations takes well under a second; this is about deadlocks, not speed).
func sysProp(c Case, x *h.Ctx) *h.Violation {
	x.Label("leg=system")
	v, hung := sysAttempt(c, x, 30*time.Second)
	if !hung {
		return v
	}
	v2, hung2 := sysAttempt(c, &h.Ctx{}, 60*time.Second)
	if hung2 {
		return v2
	}
	panic(h.Infra{Msg: "the child did not finish within 30 s but did on a second attempt (slow machine): case not judged"})
}

func sysAttempt(c Case, x *h.Ctx, allowance time.Duration) (viol *h.Violation, hung bool) {
	p := &c.Sys.Program
	work, done := h.Scratch("c11sys")
	defer done()
	root := filepath.Join(work, "db")
	if err := os.MkdirAll(root, 0o755); err != nil {
		panic(h.Infra{Msg: "harness file operation failed: " + err.Error()})
	}
	pj, _ := json.Marshal(p)
	pfile := filepath.Join(work, "program.json")
	if err := os.WriteFile(pfile, pj, 0o644); err != nil {
		panic(h.Infra{Msg: "harness file operation failed: " + err.Error()})
	}
	ack := filepath.Join(work, "ack")
	build := os.Getenv("VERIF_BUILD")
	if build == "" {
		build = "/verif/.build"
	}
	cmd := exec.Command(filepath.Join(build, "runner"), pfile, root, ack)
	if sc := c.Sys.Syscall; sc != nil {
		x.Label("leg=system-syscall-fault")
		calls := map[string]string{"": "write,pwrite64,writev,pwritev,pwritev2", "read": "read,pread64,readv,preadv,preadv2", "sync": "fsync,fdatasync,sync_file_range",
			"meta": "mkdirat,renameat,renameat2,unlinkat,ftruncate,fallocate,linkat"}[sc.Call]
		if calls == "" || (sc.Call == "read" && sc.File == "") {
			panic(h.Infra{Msg: "bad syscall fault in case"})
		}
		args := []string{"-f", "-qq", "-o", "/dev/null", "-e", "trace=" + calls}
		if sc.File != "" {
			args = append(args, "-P", filepath.Join(root, sc.path()))
			x.Label("syscall-fault-file=" + sc.File)
		}
		x.Label("syscall-fault-call=" + strings.SplitN(calls, ",", 2)[0])
		args = append(args, "-e", fmt.Sprintf("inject=%s:error=%s:when=%d", calls, sc.Errno, sc.When), filepath.Join(build, "runner"), pfile, root, ack)
		cmd = exec.Command("strace", args...)
	}
	cmd.Dir = work
	cmd.SysProcAttr = &syscall.SysProcAttr{Setpgid: true} // tracer and child are killed together
	out := &strings.Builder{}
	cmd.Stdout, cmd.Stderr = out, out
	if err := cmd.Start(); err != nil {
		panic(h.Infra{Msg: "cannot start runner: " + err.Error()})
	}
	donec := make(chan error, 1)
	go func() { donec <- cmd.Wait() }()
	exit := 0
	select {
	case err := <-donec:
		if ee, ok := err.(*exec.ExitError); ok {
			exit = ee.ExitCode()
		} else if err != nil {
			panic(h.Infra{Msg: "runner: " + err.Error()})
		}
	case <-time.After(allowance):
		_ = syscall.Kill(-cmd.Process.Pid, syscall.SIGKILL)
		<-donec
		return h.V("iofault/system/hang", "the child did not finish within %v (twice) after the injected failure %s (deadlock?)", allowance, faultDesc(c.Sys)), true
	}
	for _, ln := range strings.Split(out.String(), "\n") {
		if strings.HasPrefix(ln, "strace: ") && !strings.Contains(ln, "exiting, ptrace_syscall_info") { // (that one is a notice about a thread that went away inside a call, e.g. at execve)
			panic(h.Infra{Msg: "the tracer failed: " + ln})
		}
	}
	ops := p.Ops()
	called := make([]bool, len(ops))
	okRet := make([]bool, len(ops))
	ret := make([]bool, len(ops))
	armed, opErr, fired := false, false, false
	ab, _ := os.ReadFile(ack)
	for _, ln := range strings.Split(string(ab), "\n") {
		if strings.HasPrefix(ln, "fault-fired") {
			fired = true
			continue
		}
		f := strings.SplitN(ln, " ", 3)
		if len(f) < 2 {
			continue
		}
		if f[0] == "fault-armed" {
			armed = true
			continue
		}
		i, err := strconv.Atoi(f[1])
		if err != nil || i < 0 || i >= len(ops) {
			continue
		}
		switch f[0] {
		case "call":
			called[i] = true
		case "ret":
			ret[i] = true
			if len(f) == 3 && f[2] == "ok" {
				okRet[i] = true
			} else if len(f) == 3 && strings.HasPrefix(f[2], "err") {
				opErr = true
			}
		}
	}
	var acked []int
	for i := range ops {
		if okRet[i] {
			acked = append(acked, i)
		}
	}
	got, oerr := crash.ReadAll(root, p.Keys, true)
	desc := fmt.Sprintf("fault: %s; child exit status %d", faultDesc(c.Sys), exit)
	target := "syscall"
	if p.Fault != nil {
		target = p.Fault.Target
	}
	if oerr != nil {
		return h.V("iofault/system/"+oerr.Phase+"-failed/"+target+"/"+oerr.Class(), "%s; opening the directory afterwards failed in %s: %.600s\nchild output: %.600s", desc, oerr.Phase, oerr.Err, out.String()), false
	}
	// A fired fault that neither stopped the child nor surfaced in a client call is not an alarm by itself: the
	// statement asks that the failing operation (merge / compaction / flush) returns an error, which a background loop
	// may log and retry. What counts is that the failed output is never served: the content comparison below.
	handledSilently := fired && exit == 0 && !opErr
	// Every acknowledged operation must be there. An operation that was in flight when the child stopped, or that
	// returned an error, may or may not have taken effect (several can exist: strace counts writes per thread, and a
	// broken log makes every later write fail), so per key the directory must show the last acknowledged operation on
	// that key or one of the unacknowledged ones after it.
	want := crash.ModelAfter(p, ops, acked)
	d := crash.Diff(want, got)
	if d != "" {
		lastAck := map[string]int{}
		for _, i := range acked {
			if ops[i].Kind == "put" || ops[i].Kind == "delete" {
				lastAck[string(p.KeyOf(ops[i].Step))] = i
			}
		}
		allowed := map[string][]map[string][]byte{}
		for i := range ops {
			if !(called[i] && !okRet[i]) || (ops[i].Kind != "put" && ops[i].Kind != "delete") {
				continue
			}
			k := string(p.KeyOf(ops[i].Step))
			if la, ok := lastAck[k]; ok && la > i {
				continue
			}
			eff := crash.ModelAfter(p, ops, []int{i})
			if ops[i].Kind == "put" && len(eff) == 0 {
				continue // rejected by the API: no effect either way
			}
			allowed[k] = append(allowed[k], eff)
		}
		patched := map[string][]byte{}
		for k, v := range want {
			patched[k] = v
		}
		for k, effs := range allowed {
			gv, gok := got[k]
			for _, eff := range effs {
				ev, eok := eff[k]
				if eok == gok && string(ev) == string(gv) {
					if eok {
						patched[k] = ev
					} else {
						delete(patched, k)
					}
					break
				}
			}
		}
		d = crash.Diff(patched, got)
	}
	if d != "" {
		return h.V("iofault/system/content/"+target, "%s; the directory afterwards does not hold the acknowledged operations (expected vs found: %s): an incomplete output was installed or acknowledged data was dropped\nchild output: %.600s", desc, d, out.String()), false
	}
	x.Label("fault-target=" + target)
	if armed {
		x.Label("fault-armed")
	}
	if fired {
		x.Label("fault-fired")
		if p.Fault != nil && p.Fault.Pos < 0 {
			x.Label("fault-fired-at-close")
		}
	}
	if exit != 0 {
		x.Label("child-stopped")
	}
	if opErr {
		x.Label("operation-returned-error")
	}
	if handledSilently {
		x.Label("fault-fired-without-stop-or-client-error")
	}
	if sc := c.Sys.Syscall; sc != nil {
		eff := "none-visible"
		if exit != 0 {
			eff = "child-stopped"
		} else if opErr {
			eff = "operation-returned-error"
		}
		x.Label("syscall-fault-effect=" + map[string]string{"": "write", "read": "read", "sync": "fsync", "meta": "dirop"}[sc.Call] + "/" + eff)
	}
	x.SetNonTrivial(fired || (c.Sys.Syscall != nil && (exit != 0 || opErr)))
	return nil, false
}

func faultDesc(sc *SysCase) string {
	if sc.Syscall != nil {
		call := map[string]string{"": "write(2)", "read": "read(2)/pread64(2)", "sync": "fsync(2)", "meta": "mkdirat/renameat/unlinkat/ftruncate/fallocate/linkat"}[sc.Syscall.Call]
		if sc.Syscall.File != "" {
			return fmt.Sprintf("the %d-th %s on %s (per thread) fails with %s", sc.Syscall.When, call, sc.Syscall.path(), sc.Syscall.Errno)
		}
		return fmt.Sprintf("the %d-th %s of a thread of the child fails with %s", sc.Syscall.When, call, sc.Syscall.Errno)
	}
	f := sc.Program.Fault
	return fmt.Sprintf("%s #%d %s writer fails at write %d (sticky=%v)", f.Target, f.Nth, f.Which, f.Pos, f.Sticky)
}

func (sf *SyscallFault) path() string {
	if sf.File == "wal" {
		return names.WalFile(sf.N)
	}
	return names.TableFile(sf.N, sf.File)
}
