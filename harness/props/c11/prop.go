// Package c11: I/O failures during merge, compaction and flush are reported, never absorbed.
// Interface leg: fault injection at every position of every input iterator and of the output writer.
package c11

import (
	"errors"
	"fmt"

	"github.com/thomasjungblut/go-sstables/skiplist"
	"github.com/thomasjungblut/go-sstables/sstables"
	"pgregory.net/rapid"
	"verif/internal/gen"
	"verif/internal/h"
	"verif/internal/tbl"
)

type Fault struct {
	Input  int  `json:"input"`  // -1 = the output writer
	Pos    int  `json:"pos"`    // the Pos-th call (0-based) fails
	Sticky bool `json:"sticky"` // keeps failing afterwards
}

type Case struct {
	Kind   string     `json:"kind"` // merge | compact-latest | compact-skip
	Tables [][]tbl.KV `json:"tables"`
	Double [][2]Fault `json:"double,omitempty"` // sampled double faults (single faults are enumerated exhaustively)
	Sys    *SysCase   `json:"sys,omitempty"`    // system leg (see sys.go)
}

func Gen() *rapid.Generator[Case] {
	return rapid.Custom(func(t *rapid.T) Case {
		if rapid.IntRange(0, 5).Draw(t, "systemleg") == 0 {
			return SysGen().Draw(t, "sys")
		}
		var c Case
		c.Kind = rapid.SampledFrom([]string{"merge", "compact-latest", "compact-skip"}).Draw(t, "kind")
		nk := rapid.IntRange(1, 10).Draw(t, "nkeys")
		uni := gen.SortedDistinct(rapid.SliceOfN(gen.KeyGen(false, 12), nk, nk).Draw(t, "universe"))
		nt := rapid.IntRange(1, 5).Draw(t, "ntables")
		vg := gen.BlobGen(true, false, nil, 12)
		c.Tables = make([][]tbl.KV, nt)
		if c.Kind == "merge" {
			for _, k := range uni {
				ti := rapid.IntRange(0, nt-1).Draw(t, "owner")
				c.Tables[ti] = append(c.Tables[ti], tbl.KV{K: k, V: vg.Draw(t, "val")})
			}
		} else {
			for ti := 0; ti < nt; ti++ {
				for _, k := range uni {
					if rapid.IntRange(0, 2).Draw(t, "in") > 0 {
						c.Tables[ti] = append(c.Tables[ti], tbl.KV{K: k, V: vg.Draw(t, "val")})
					}
				}
			}
		}
		nd := rapid.IntRange(0, 6).Draw(t, "ndouble")
		fg := rapid.Custom(func(t *rapid.T) Fault {
			return Fault{Input: rapid.IntRange(-1, nt-1).Draw(t, "input"), Pos: rapid.IntRange(0, nk).Draw(t, "pos"), Sticky: rapid.Bool().Draw(t, "sticky")}
		})
		for i := 0; i < nd; i++ {
			c.Double = append(c.Double, [2]Fault{fg.Draw(t, "f1"), fg.Draw(t, "f2")})
		}
		return c
	})
}

var errInjected = errors.New("injected I/O failure")

type faultyIt struct {
	sstables.SSTableIteratorI // nil: only there so that the fake keeps compiling when the interface grows
	kvs                       []tbl.KV
	pos                       int
	calls                     int
	faults                    []Fault
	fired                     *int
	broken                    bool
}

func (it *faultyIt) Next() ([]byte, []byte, error) {
	call := it.calls
	it.calls++
	if it.broken {
		*it.fired++
		return nil, nil, errInjected
	}
	for _, f := range it.faults {
		if f.Pos == call {
			*it.fired++
			it.broken = f.Sticky
			return nil, nil, errInjected
		}
	}
	if it.pos >= len(it.kvs) {
		return nil, nil, sstables.Done
	}
	kv := it.kvs[it.pos]
	it.pos++
	return kv.K, kv.V.Bytes(), nil
}

type faultyWriter struct {
	sstables.SSTableStreamWriterI // nil, see faultyIt
	out                           []tbl.Pair
	calls                         int
	faults                        []Fault
	fired                         *int
	broken                        bool
}

func (w *faultyWriter) Open() error  { return nil }
func (w *faultyWriter) Close() error { return nil }
func (w *faultyWriter) WriteNext(k, v []byte) error {
	call := w.calls
	w.calls++
	if w.broken {
		*w.fired++
		return errInjected
	}
	for _, f := range w.faults {
		if f.Pos == call {
			*w.fired++
			w.broken = f.Sticky
			return errInjected
		}
	}
	var vc []byte
	if v != nil {
		vc = append([]byte{}, v...)
	}
	w.out = append(w.out, tbl.Pair{K: append([]byte{}, k...), V: vc})
	return nil
}

// run executes the merge with the given faults; returns the error, how many faults fired, how many
// records had been written when the first fault fired is not tracked - only the totals.
func run(c Case, faults []Fault) (err error, fired int, written int, panicked any) {
	defer func() {
		if r := recover(); r != nil {
			panicked = r
		}
	}()
	var its []sstables.SSTableMergeIteratorContext
	for i, tb := range c.Tables {
		fi := &faultyIt{kvs: tb, fired: &fired}
		for _, f := range faults {
			if f.Input == i {
				fi.faults = append(fi.faults, f)
			}
		}
		its = append(its, sstables.NewMergeIteratorContext(i, fi))
	}
	w := &faultyWriter{fired: &fired}
	for _, f := range faults {
		if f.Input == -1 {
			w.faults = append(w.faults, f)
		}
	}
	m := sstables.NewSSTableMerger(skiplist.BytesComparator{})
	switch c.Kind {
	case "merge":
		err = m.Merge(its, w)
	case "compact-latest":
		err = m.MergeCompact(its, w, sstables.ScanReduceLatestWins)
	case "compact-skip":
		err = m.MergeCompact(its, w, sstables.ScanReduceLatestWinsSkipTombstones)
	}
	return err, fired, len(w.out), nil
}

func Prop(c Case, x *h.Ctx) *h.Violation {
	if c.Sys != nil {
		return sysProp(c, x)
	}
	x.Label("leg=interface")
	x.Label("kind=" + c.Kind)
	// fault-free run first: validates the harness and gives the output length
	err, fired, total, p := run(c, nil)
	if p != nil || err != nil || fired != 0 {
		return h.V("iofault/fault-free", "fault-free %s failed: err=%v panic=%v", c.Kind, err, p)
	}
	judge := func(desc string, faults []Fault, key string) *h.Violation {
		err, fired, written, p := run(c, faults)
		where := "input"
		if len(faults) > 0 && faults[0].Input == -1 {
			where = "writer"
		}
		fp := fmt.Sprintf("iofault/%s/%s-fault-absorbed", c.Kind, where)
		if p != nil {
			// "or the process stops" is allowed by the statement; a panic is not a silent success
			x.Sub(key, true)
			x.Label("outcome=panic")
			return nil
		}
		if fired == 0 {
			x.Sub(key, false)
			if err != nil {
				return h.V("iofault/spurious-error", "%s: no fault fired but %s returned %v", desc, c.Kind, err)
			}
			return nil
		}
		x.Sub(key, written < total || total == 0)
		if err == nil {
			return h.V(fp, "%s: %d injected failure(s) fired, yet %s returned nil after writing %d of %d records", desc, fired, c.Kind, written, total)
		}
		return nil
	}
	// every single position of every input (one extra position: the call that would return Done)
	for i, tb := range c.Tables {
		for pos := 0; pos <= len(tb); pos++ {
			for _, sticky := range []bool{false, true} {
				f := Fault{Input: i, Pos: pos, Sticky: sticky}
				if v := judge(fmt.Sprintf("input %d fails at its Next #%d (sticky=%v)", i, pos, sticky), []Fault{f}, fmt.Sprintf("i%d.%d.%v", i, pos, sticky)); v != nil {
					return v
				}
			}
		}
	}
	// every write position of the output
	for pos := 0; pos < total; pos++ {
		for _, sticky := range []bool{false, true} {
			f := Fault{Input: -1, Pos: pos, Sticky: sticky}
			if v := judge(fmt.Sprintf("writer fails at WriteNext #%d (sticky=%v)", pos, sticky), []Fault{f}, fmt.Sprintf("w%d.%v", pos, sticky)); v != nil {
				return v
			}
		}
	}
	for di, d := range c.Double {
		if v := judge(fmt.Sprintf("double fault %+v", d), d[:], fmt.Sprintf("d%d", di)); v != nil {
			return v
		}
	}
	return nil
}
