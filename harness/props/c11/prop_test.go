package c11

import (
	"testing"

	"verif/internal/h"
)

func TestProp(t *testing.T) {
	h.Run(t, h.Spec[Case]{ID: "C11", Gen: Gen(), Prop: Prop, CountSubs: true})
}
