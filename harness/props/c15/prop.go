// Package c15: a table holds exactly the accepted writes, ascending, with truthful metadata.
package c15

import (
	"bytes"
	"errors"
	"fmt"
	"os"
	"path/filepath"

	"github.com/thomasjungblut/go-sstables/recordio"
	rProto "github.com/thomasjungblut/go-sstables/recordio/proto"
	"github.com/thomasjungblut/go-sstables/skiplist"
	"github.com/thomasjungblut/go-sstables/sstables"
	"pgregory.net/rapid"
	"verif/internal/failw"
	"verif/internal/gen"
	"verif/internal/h"
	"verif/internal/tbl"
)

type Call struct {
	K     []byte   `json:"k"`
	V     gen.Blob `json:"v"`
	Fault string   `json:"fault,omitempty"` // "" | data | index
}

type Case struct {
	Calls []Call    `json:"calls"`
	W     tbl.WOpts `json:"w"`
}

func Gen() *rapid.Generator[Case] {
	return rapid.Custom(func(t *rapid.T) Case {
		var c Case
		c.W = tbl.WOptsGen().Draw(t, "w")
		c.W.Simple = false
		n := rapid.IntRange(0, 40).Draw(t, "n")
		// a mostly ascending key stream with disorder: draw a sorted pool, then perturb
		pool := gen.SortedDistinct(rapid.SliceOfN(gen.KeyGen(true, 40), 1, 30).Draw(t, "pool"))
		vg := gen.BlobGen(true, true, []int{16, 64}, 300)
		pos := 0
		for i := 0; i < n; i++ {
			var k []byte
			switch rapid.IntRange(0, 9).Draw(t, "kk") {
			case 0: // repeat the previous key
				if i > 0 {
					k = c.Calls[i-1].K
				} else {
					k = pool[0]
				}
			case 1: // jump back
				k = pool[rapid.IntRange(0, len(pool)-1).Draw(t, "back")]
			default:
				k = pool[pos%len(pool)]
				pos += rapid.IntRange(1, 2).Draw(t, "step")
			}
			f := ""
			switch rapid.IntRange(0, 7).Draw(t, "fault") {
			case 0:
				f = "data"
			case 1:
				f = "index"
			}
			c.Calls = append(c.Calls, Call{K: k, V: vg.Draw(t, "v"), Fault: f})
		}
		return c
	})
}

func show(b []byte) string {
	if b == nil {
		return "nil"
	}
	return fmt.Sprintf("%x", b)
}

func Prop(c Case, x *h.Ctx) *h.Violation {
	dir, done := h.Scratch("c15")
	defer done()
	w, err := sstables.NewSSTableStreamWriter(
		sstables.WriteBasePath(dir), sstables.WithKeyComparator(skiplist.BytesComparator{}),
		sstables.DataCompressionType(c.W.DataComp), sstables.IndexCompressionType(c.W.IndexComp),
		sstables.BloomExpectedNumberOfElements(c.W.BloomN), sstables.BloomFalsePositiveProbability(c.W.BloomP),
		sstables.WriteBufferSizeBytes(c.W.WriteBuf))
	if err != nil {
		panic(err)
	}
	if err := w.Open(); err != nil {
		return h.V("writer/open", "Open: %v", err)
	}
	dctl, ictl := failw.NewCtl(), failw.NewCtl()
	w.VerifWrapWriters(
		func(d recordio.WriterI) recordio.WriterI { return &failw.Data{WriterI: d, C: dctl} },
		func(i rProto.WriterI) rProto.WriterI { return &failw.Index{WriterI: i, C: ictl} })

	type kv struct{ k, v []byte }
	var ok []kv
	var lastAccepted []byte
	hasAccepted := false
	orderRej, faultNotLast, okAfterFault := 0, 0, 0
	sawFault := false
	for i, call := range c.Calls {
		v := call.V.Bytes()
		dctl.FailNext = call.Fault == "data"
		ictl.FailNext = call.Fault == "index"
		// the writer gets private copies which are scribbled over after the call: a caller may re-use its buffers,
		// so nothing the table or its metadata needs later may alias them
		kc := append([]byte{}, call.K...)
		var vc []byte
		if v != nil {
			vc = append([]byte{}, v...)
		}
		firedBefore := dctl.Fired + ictl.Fired
		err := w.WriteNext(kc, vc)
		faultFired := dctl.Fired+ictl.Fired > firedBefore
		for j := range kc {
			kc[j] = 0xEE
		}
		for j := range vc {
			vc[j] = 0xEE
		}
		dctl.FailNext, ictl.FailNext = false, false
		mustReject := hasAccepted && bytes.Compare(call.K, lastAccepted) <= 0
		if mustReject {
			if err == nil {
				return h.V("writer/order-accepted", "call %d: key %x accepted although the last accepted key is %x", i, call.K, lastAccepted)
			}
			orderRej++
			continue
		}
		if call.Fault != "" && !faultFired && err == nil {
			// the armed writer was not used by this call (an index that is not written for every record, say): an
			// ordinary accepted write
			x.Label("armed-fault-did-not-fire")
		} else if call.Fault != "" {
			if err == nil {
				return h.V("writer/fault-absorbed", "call %d: injected %s-append failure, WriteNext returned nil", i, call.Fault)
			}
			sawFault = true
			if i < len(c.Calls)-1 {
				faultNotLast++
			}
			continue
		}
		if err != nil {
			// key is strictly greater than the last accepted key and nothing was injected. The statement is
			// one-directional (it does not promise acceptance), so this is only labelled.
			x.Label("valid-write-rejected-after-failed-write")
			continue
		}
		ok = append(ok, kv{append([]byte{}, call.K...), v})
		lastAccepted = append([]byte{}, call.K...)
		hasAccepted = true
		if sawFault {
			okAfterFault++
		}
	}
	if err := w.Close(); err != nil {
		return h.V("writer/close", "Close: %v", err)
	}

	r, err := tbl.Open(dir, tbl.ROpts{ReadBuf: 4096})
	if err != nil {
		return h.V("writer/unreadable", "table does not open after Close: %v", err)
	}
	defer r.Close()
	it, err := r.Scan()
	if err != nil {
		return h.V("writer/unreadable", "Scan: %v", err)
	}
	got, err := tbl.Drain(it, len(ok)+2)
	if err != nil {
		return h.V("writer/unreadable", "scan iteration: %v", err)
	}
	if len(got) != len(ok) {
		return h.V("writer/content-count", "table has %d records, %d writes succeeded", len(got), len(ok))
	}
	for i := range ok {
		if !bytes.Equal(got[i].K, ok[i].k) || !bytes.Equal(got[i].V, ok[i].v) || (got[i].V == nil) != (ok[i].v == nil) {
			return h.V("writer/content", "record %d = (%x,%s) want (%x,%s)", i, got[i].K, show(got[i].V), ok[i].k, show(ok[i].v))
		}
		gv, err := r.Get(ok[i].k)
		if err != nil || !bytes.Equal(gv, ok[i].v) {
			return h.V("writer/get", "Get(%x)=(%s,%v) want %s", ok[i].k, show(gv), err, show(ok[i].v))
		}
	}
	// a key whose write failed must not be found
	for _, call := range c.Calls {
		found := false
		for _, p := range ok {
			if bytes.Equal(p.k, call.K) {
				found = true
			}
		}
		if !found {
			if _, err := r.Get(call.K); !errors.Is(err, sstables.NotFound) {
				return h.V("writer/phantom", "Get(%x) of a key that was never written successfully: err=%v", call.K, err)
			}
		}
	}
	md := r.MetaData()
	nils := uint64(0)
	for _, p := range ok {
		if p.v == nil {
			nils++
		}
	}
	if md.NumRecords != uint64(len(ok)) {
		return h.V("writer/meta-numrecords", "NumRecords=%d, %d writes succeeded", md.NumRecords, len(ok))
	}
	if md.NullValues != nils {
		return h.V("writer/meta-nullvalues", "NullValues=%d, %d nil values were written", md.NullValues, nils)
	}
	if len(ok) > 0 {
		if !bytes.Equal(md.MinKey, ok[0].k) {
			return h.V("writer/meta-minkey", "MinKey=%x, smallest stored key is %x", md.MinKey, ok[0].k)
		}
		if !bytes.Equal(md.MaxKey, ok[len(ok)-1].k) {
			return h.V("writer/meta-maxkey", "MaxKey=%x, largest stored key is %x", md.MaxKey, ok[len(ok)-1].k)
		}
	} else if len(md.MinKey) != 0 || len(md.MaxKey) != 0 {
		return h.V("writer/meta-keys-of-empty-table", "empty table reports MinKey=%x MaxKey=%x", md.MinKey, md.MaxKey)
	}
	ds, _ := os.Stat(filepath.Join(dir, sstables.DataFileName))
	is, _ := os.Stat(filepath.Join(dir, sstables.IndexFileName))
	if md.DataBytes != uint64(ds.Size()) || md.IndexBytes != uint64(is.Size()) || md.TotalBytes != md.DataBytes+md.IndexBytes {
		return h.V("writer/meta-bytes", "DataBytes=%d IndexBytes=%d TotalBytes=%d, files have %d and %d bytes", md.DataBytes, md.IndexBytes, md.TotalBytes, ds.Size(), is.Size())
	}
	x.Labelf("dcomp=%d", c.W.DataComp)
	if orderRej > 0 {
		x.Label("ordering-rejection")
	}
	if sawFault {
		x.Label("injected-failure")
	}
	x.SetNonTrivial(orderRej >= 1 && faultNotLast >= 1 && okAfterFault >= 2)
	return nil
}
