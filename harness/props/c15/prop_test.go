package c15

import (
	"testing"

	"verif/internal/h"
)

func TestProp(t *testing.T) {
	h.Run(t, h.Spec[Case]{ID: "C15", Gen: Gen(), Prop: Prop})
}
