// Package c01: SimpleDB reads like a map, whatever flushes, compactions and restarts happen.
package c01

import (
	"bytes"
	"errors"
	"fmt"

	"github.com/thomasjungblut/go-sstables/simpledb"
	"pgregory.net/rapid"
	"verif/internal/h"
	"verif/internal/sdb"
)

type Step struct {
	Op    string `json:"op"` // put delete get rotate waitflush compact readall
	Key   int    `json:"key,omitempty"`
	VLen  int    `json:"vlen,omitempty"`
	Bytes bool   `json:"bytes,omitempty"` // byte-flavoured API instead of string-flavoured
}

type Session struct {
	Opts  sdb.Opts `json:"opts"`
	Steps []Step   `json:"steps"`
}

type Case struct {
	Keys     [][]byte  `json:"keys"`
	Sessions []Session `json:"sessions"`
}

func Gen() *rapid.Generator[Case] {
	return rapid.Custom(func(t *rapid.T) Case {
		var c Case
		c.Keys = sdb.Universe().Draw(t, "keys")
		ns := rapid.IntRange(1, 4).Draw(t, "sessions")
		maxSteps := 60
		if h.Thorough() {
			maxSteps = 150
		}
		for s := 0; s < ns; s++ {
			se := Session{Opts: sdb.OptsGen(true).Draw(t, "opts")}
			n := rapid.IntRange(0, maxSteps).Draw(t, "nsteps")
			for i := 0; i < n; i++ {
				st := Step{Key: rapid.IntRange(0, len(c.Keys)-1).Draw(t, "key"), Bytes: rapid.Bool().Draw(t, "bytes")}
				k := rapid.IntRange(0, 19).Draw(t, "opkind")
				switch {
				case k < 8:
					st.Op = "put"
					st.VLen = rapid.SampledFrom([]int{1, 8, 20, 60, 200, 1000}).Draw(t, "vlen")
				case k < 12:
					st.Op = "delete"
				case k < 14:
					st.Op = "get"
				case k < 16:
					st.Op = "rotate"
				case k == 16:
					st.Op = "waitflush"
				case k < 19:
					st.Op = "compact"
				default:
					st.Op = "readall"
				}
				se.Steps = append(se.Steps, st)
			}
			c.Sessions = append(c.Sessions, se)
		}
		return c
	})
}

type runState struct {
	c     Case
	db    *simpledb.DB
	model map[string][]byte
	// where the current answer of a key was last written relative to flushes: used for the non-triviality rule
	flushes, merges, reopens int
	layered                  bool
}

func (r *runState) get(k []byte, asBytes bool) ([]byte, bool, error) {
	if asBytes {
		v, err := r.db.GetBytes(k)
		if errors.Is(err, simpledb.ErrNotFound) {
			return nil, false, nil
		}
		return v, err == nil, err
	}
	v, err := r.db.Get(string(k))
	if errors.Is(err, simpledb.ErrNotFound) {
		return nil, false, nil
	}
	return []byte(v), err == nil, err
}

func (r *runState) checkKey(at string, k []byte, asBytes bool) *h.Violation {
	got, found, err := r.get(k, asBytes)
	if err != nil {
		return h.V("db/get-error", "%s: Get(%x) returned error %v", at, k, err)
	}
	want, exists := r.model[string(k)]
	switch {
	case exists && !found:
		return h.V("db/lost", "%s: Get(%x) = not found, want %.40q", at, k, want)
	case !exists && found:
		return h.V("db/resurrected", "%s: Get(%x) = %.40q, want not found (never put or deleted)", at, k, got)
	case exists && !bytes.Equal(got, want):
		return h.V("db/stale", "%s: Get(%x) = %.40q, want %.40q", at, k, got, want)
	}
	return nil
}

func (r *runState) checkAll(at string) *h.Violation {
	for i, k := range r.c.Keys {
		if v := r.checkKey(at, k, i%2 == 0); v != nil {
			return v
		}
	}
	for _, k := range [][]byte{[]byte("never-written-1"), {0xff, 0xfe, 0x00}} {
		if v := r.checkKey(at, k, true); v != nil {
			return v
		}
	}
	return nil
}

func Prop(c Case, x *h.Ctx) *h.Violation {
	dir, done := h.Scratch("c01")
	defer done()
	r := &runState{c: c, model: map[string][]byte{}}
	gidx := 0
	for si, se := range c.Sessions {
		db, err := sdb.Open(dir, se.Opts)
		if err != nil {
			return h.V("db/open-error", "session %d: %v", si, err)
		}
		r.db = db
		if si > 0 {
			r.reopens++
			if v := r.checkAll(fmt.Sprintf("session %d after reopen", si)); v != nil {
				_ = db.Close()
				return v
			}
		}
		v := func() *h.Violation {
			for i, st := range se.Steps {
				gidx++
				at := fmt.Sprintf("session %d step %d %s", si, i, st.Op)
				k := c.Keys[st.Key%len(c.Keys)]
				switch st.Op {
				case "put":
					val := sdb.Value(gidx, st.VLen)
					var err error
					if st.Bytes {
						err = db.PutBytes(k, val)
					} else {
						err = db.Put(string(k), string(val))
					}
					if err != nil {
						return h.V("db/put-error", "%s(%x): %v", at, k, err)
					}
					r.model[string(k)] = val
					if v := r.checkKey(at, k, st.Bytes); v != nil {
						return v
					}
				case "delete":
					var err error
					if st.Bytes {
						err = db.DeleteBytes(k)
					} else {
						err = db.Delete(string(k))
					}
					if err != nil {
						return h.V("db/delete-error", "%s(%x): %v", at, k, err)
					}
					delete(r.model, string(k))
					if v := r.checkKey(at, k, st.Bytes); v != nil {
						return v
					}
				case "get":
					if v := r.checkKey(at, k, st.Bytes); v != nil {
						return v
					}
				case "rotate":
					if err := db.VerifRotate(); err != nil {
						return h.V("db/rotate-error", "%s: %v", at, err)
					}
					if v := r.checkKey(at, k, st.Bytes); v != nil {
						return v
					}
				case "waitflush":
					if err := db.VerifWaitFlushIdle(); err != nil {
						return h.V("db/flush-error", "%s: %v", at, err)
					}
					if v := r.checkKey(at, k, st.Bytes); v != nil {
						return v
					}
				case "compact":
					if se.Opts.Ticker {
						continue // the real ticker owns compaction in this session
					}
					if err := db.VerifWaitFlushIdle(); err != nil {
						return h.V("db/flush-error", "%s: %v", at, err)
					}
					before := len(db.VerifTables())
					sel, _, err := db.VerifCompactOnce()
					if err != nil {
						return h.V("db/compaction-error", "%s: compaction cycle failed: %v", at, err)
					}
					if len(sel) >= 2 {
						r.merges++
						if len(sel) < before {
							x.Label("compaction-of-a-strict-subset")
						}
					}
					if v := r.checkAll(at); v != nil {
						return v
					}
				case "readall":
					if v := r.checkAll(at); v != nil {
						return v
					}
				}
			}
			return nil
		}()
		if v == nil {
			// count flushed tables for the non-triviality rule before closing
			if err := db.VerifWaitFlushIdle(); err != nil {
				v = h.V("db/flush-error", "session %d end: %v", si, err)
			} else {
				r.flushes += len(db.VerifTables())
				if verr := r.checkAll(fmt.Sprintf("session %d before close", si)); verr != nil {
					v = verr
				}
			}
		}
		if err := db.Close(); err != nil && v == nil {
			v = h.V("db/close-error", "session %d: Close: %v", si, err)
		}
		if v != nil {
			return v
		}
		if se.Opts.Ticker {
			x.Label("session-with-real-ticker")
		}
	}
	x.Labelf("sessions=%d", len(c.Sessions))
	if r.merges > 0 {
		x.Label("merged>=2-tables")
	}
	if r.reopens > 0 {
		x.Label("reopen")
	}
	x.SetNonTrivial(r.flushes >= 1 && (r.merges >= 1 || r.reopens >= 1) && len(r.model) >= 1)
	return nil
}

// Shrink proposes structurally simpler programs: without a session, with chunks of steps removed.
func Shrink(c Case) []Case {
	var out []Case
	for si := range c.Sessions {
		if len(c.Sessions) > 1 {
			cp := c
			cp.Sessions = append(append([]Session{}, c.Sessions[:si]...), c.Sessions[si+1:]...)
			out = append(out, cp)
		}
	}
	for si := range c.Sessions {
		for _, steps := range h.ShrinkList(c.Sessions[si].Steps) {
			cp := c
			cp.Sessions = append([]Session{}, c.Sessions...)
			cp.Sessions[si].Steps = steps
			out = append(out, cp)
		}
	}
	return out
}
