// Package c06: compaction never changes what a key reads as; deleted keys stay deleted.
package c06

import (
	"bytes"
	"errors"
	"fmt"
	"path/filepath"
	"sort"

	"github.com/thomasjungblut/go-sstables/simpledb"
	"pgregory.net/rapid"
	"verif/internal/h"
	"verif/internal/sdb"
)

type Write struct {
	Key  int  `json:"key"`
	Del  bool `json:"del,omitempty"`
	VLen int  `json:"vlen,omitempty"`
}

// Batch is the content of one flushed table.
type Batch struct {
	Writes []Write `json:"writes"`
}

type Cycle struct {
	Op    string `json:"op"` // compact | flush | reopen
	Batch *Batch `json:"batch,omitempty"`
}

type Case struct {
	Keys      [][]byte `json:"keys"`
	Build     []Batch  `json:"build"`    // lineage: one table per batch, oldest first
	MaxRank   int      `json:"max_rank"` // -1: huge; 0: below the smallest table; k: just above the k-th smallest table
	Ratio     float32  `json:"ratio"`
	Threshold int      `json:"threshold"`
	WBuf      uint64   `json:"wbuf"`
	RBuf      uint64   `json:"rbuf"`
	Cycles    []Cycle  `json:"cycles"`
}

func batchGen(nkeys int) *rapid.Generator[Batch] {
	return rapid.Custom(func(t *rapid.T) Batch {
		var b Batch
		kind := rapid.IntRange(0, 5).Draw(t, "batchkind") // 0: only deletes, 1: big values, else mixed
		n := rapid.IntRange(1, nkeys).Draw(t, "nwrites")
		// half of the tables cover a narrow window of the (sorted) key universe, so that tables with disjoint and with
		// barely touching key ranges are common (decisions taken from MinKey/MaxKey have to be right for them)
		lo, hi := 0, nkeys-1
		if rapid.Bool().Draw(t, "window") {
			lo = rapid.IntRange(0, nkeys-1).Draw(t, "winLo")
			hi = rapid.IntRange(lo, min(lo+2, nkeys-1)).Draw(t, "winHi")
		}
		for i := 0; i < n; i++ {
			w := Write{Key: rapid.IntRange(lo, hi).Draw(t, "key")}
			switch {
			case kind == 0:
				w.Del = true
			case kind == 1:
				w.VLen = rapid.SampledFrom([]int{500, 2000}).Draw(t, "vlen")
			default:
				if rapid.IntRange(0, 2).Draw(t, "del") == 0 {
					w.Del = true
				} else {
					w.VLen = rapid.SampledFrom([]int{1, 10, 50, 200}).Draw(t, "vlen")
				}
			}
			b.Writes = append(b.Writes, w)
		}
		return b
	})
}

func Gen() *rapid.Generator[Case] {
	return rapid.Custom(func(t *rapid.T) Case {
		var c Case
		c.Keys = sdb.Universe().Draw(t, "keys")
		nb := rapid.IntRange(2, 6).Draw(t, "nbuild")
		bg := batchGen(len(c.Keys))
		for i := 0; i < nb; i++ {
			c.Build = append(c.Build, bg.Draw(t, "batch"))
		}
		c.MaxRank = rapid.IntRange(-1, nb).Draw(t, "maxrank")
		c.Ratio = rapid.SampledFrom([]float32{0, 0.2, 0.5, 0.9, 1}).Draw(t, "ratio")
		c.Threshold = rapid.IntRange(0, 3).Draw(t, "threshold")
		c.WBuf = rapid.SampledFrom([]uint64{64, 4096}).Draw(t, "wbuf")
		c.RBuf = rapid.SampledFrom([]uint64{64, 4096}).Draw(t, "rbuf")
		nc := rapid.IntRange(1, 8).Draw(t, "ncycles")
		for i := 0; i < nc; i++ {
			switch k := rapid.IntRange(0, 9).Draw(t, "cyclekind"); {
			case k < 6:
				c.Cycles = append(c.Cycles, Cycle{Op: "compact"})
			case k < 9:
				b := bg.Draw(t, "cbatch")
				c.Cycles = append(c.Cycles, Cycle{Op: "flush", Batch: &b})
			default:
				c.Cycles = append(c.Cycles, Cycle{Op: "reopen"})
			}
		}
		return c
	})
}

func Shrink(c Case) []Case {
	var out []Case
	for _, b := range h.ShrinkList(c.Build) {
		if len(b) >= 1 {
			cp := c
			cp.Build = b
			out = append(out, cp)
		}
	}
	for _, cy := range h.ShrinkList(c.Cycles) {
		cp := c
		cp.Cycles = cy
		out = append(out, cp)
	}
	for bi := range c.Build {
		for _, ws := range h.ShrinkList(c.Build[bi].Writes) {
			if len(ws) == 0 {
				continue
			}
			cp := c
			cp.Build = append([]Batch{}, c.Build...)
			cp.Build[bi] = Batch{Writes: ws}
			out = append(out, cp)
		}
	}
	return out
}

type state struct {
	c     Case
	db    *simpledb.DB
	model map[string][]byte
	gidx  int
}

func (s *state) apply(b Batch) *h.Violation {
	for _, w := range b.Writes {
		s.gidx++
		k := s.c.Keys[w.Key%len(s.c.Keys)]
		if w.Del {
			if err := s.db.DeleteBytes(k); err != nil {
				return h.V("compaction/write-error", "Delete(%x): %v", k, err)
			}
			delete(s.model, string(k))
		} else {
			v := sdb.Value(s.gidx, w.VLen)
			if err := s.db.PutBytes(k, v); err != nil {
				return h.V("compaction/write-error", "Put(%x): %v", k, err)
			}
			s.model[string(k)] = v
		}
	}
	if err := s.db.VerifRotate(); err != nil {
		return h.V("compaction/rotate-error", "rotate: %v", err)
	}
	if err := s.db.VerifWaitFlushIdle(); err != nil {
		return h.V("compaction/flush-error", "wait: %v", err)
	}
	return nil
}

func (s *state) snapshot() (map[string][]byte, error) {
	out := map[string][]byte{}
	for _, k := range s.c.Keys {
		v, err := s.db.GetBytes(k)
		if errors.Is(err, simpledb.ErrNotFound) {
			continue
		}
		if err != nil {
			return nil, fmt.Errorf("Get(%x): %w", k, err)
		}
		out[string(k)] = v
	}
	return out, nil
}

func diff(a, b map[string][]byte) string {
	var keys []string
	for k := range a {
		keys = append(keys, k)
	}
	for k := range b {
		if _, ok := a[k]; !ok {
			keys = append(keys, k)
		}
	}
	sort.Strings(keys)
	for _, k := range keys {
		av, aok := a[k]
		bv, bok := b[k]
		switch {
		case aok && !bok:
			return fmt.Sprintf("key %x: %.30q -> not found", k, av)
		case !aok && bok:
			return fmt.Sprintf("key %x: not found -> %.30q (resurrected)", k, bv)
		case !bytes.Equal(av, bv):
			return fmt.Sprintf("key %x: %.30q -> %.30q", k, av, bv)
		}
	}
	return ""
}

func Prop(c Case, x *h.Ctx) *h.Violation {
	dir, done := h.Scratch("c06")
	defer done()
	s := &state{c: c, model: map[string][]byte{}}
	base := sdb.Opts{MemLimit: 1 << 30, Threshold: 1000, MaxSize: 1, Ratio: 1, WBuf: c.WBuf, RBuf: c.RBuf}
	db, err := sdb.Open(dir, base)
	if err != nil {
		return h.V("compaction/open-error", "%v", err)
	}
	s.db = db
	for _, b := range c.Build {
		if v := s.apply(b); v != nil {
			_ = db.Close()
			return v
		}
	}
	var sizes []uint64
	for _, t := range db.VerifTables() {
		sizes = append(sizes, t.Meta.TotalBytes)
	}
	if err := db.Close(); err != nil {
		return h.V("compaction/close-error", "%v", err)
	}
	sort.Slice(sizes, func(i, j int) bool { return sizes[i] < sizes[j] })
	opts := base
	opts.Threshold, opts.Ratio = c.Threshold, c.Ratio
	switch {
	case c.MaxRank < 0 || len(sizes) == 0:
		opts.MaxSize = 1 << 40
	case c.MaxRank == 0:
		opts.MaxSize = sizes[0]
	default:
		r := c.MaxRank
		if r > len(sizes) {
			r = len(sizes)
		}
		opts.MaxSize = sizes[r-1] + 1
	}
	db, err = sdb.Open(dir, opts)
	if err != nil {
		return h.V("compaction/open-error", "reopen with compaction settings: %v", err)
	}
	s.db = db
	defer func() { _ = s.db.Close() }()
	check := func(at string) *h.Violation {
		got, err := s.snapshot()
		if err != nil {
			return h.V("compaction/get-error", "%s: %v", at, err)
		}
		if d := diff(s.model, got); d != "" {
			return h.V("compaction/wrong-content", "%s: model vs database: %s", at, d)
		}
		return nil
	}
	if v := check("after building the lineage"); v != nil {
		return v
	}
	merged, tombMerge, exclOldest := 0, 0, 0
	for ci, cy := range c.Cycles {
		at := fmt.Sprintf("cycle %d (%s)", ci, cy.Op)
		switch cy.Op {
		case "compact":
			before, err := s.snapshot()
			if err != nil {
				return h.V("compaction/get-error", "%s: %v", at, err)
			}
			tables := s.db.VerifTables()
			sel, _, err := s.db.VerifCompactOnce()
			if err != nil {
				return h.V("compaction/cycle-error", "%s: compaction cycle failed: %v", at, err)
			}
			after, err := s.snapshot()
			if err != nil {
				return h.V("compaction/get-error", "%s: %v", at, err)
			}
			if d := diff(before, after); d != "" {
				return h.V("compaction/changed-reads", "%s merging %v of %d tables changed a read: %s", at, sel, len(tables), d)
			}
			if len(sel) > 0 {
				// the selection must be a gap-free run in age order
				first := -1
				tomb := false
				for i, name := range sel {
					idx := -1
					for ti, t := range tables {
						if filepath.Base(t.Path) == name {
							idx = ti
							if t.Meta.NullValues > 0 {
								tomb = true
							}
						}
					}
					if idx < 0 {
						return h.V("compaction/selection-unknown-table", "%s: selected %s is not a live table", at, name)
					}
					if i == 0 {
						first = idx
					} else if idx != first+i {
						return h.V("compaction/selection-gap", "%s: selection %v is not a gap-free run of the live tables in age order", at, sel)
					}
				}
				if len(sel) >= 2 {
					merged++
					if tomb {
						tombMerge++
						if first > 0 {
							exclOldest++
						}
					}
				}
			}
		case "flush":
			if v := s.apply(*cy.Batch); v != nil {
				return v
			}
		case "reopen":
			if err := s.db.Close(); err != nil {
				return h.V("compaction/close-error", "%s: %v", at, err)
			}
			db, err := sdb.Open(dir, opts)
			if err != nil {
				return h.V("compaction/open-error", "%s: %v", at, err)
			}
			s.db = db
		}
		if v := check(at); v != nil {
			return v
		}
	}
	if merged > 0 {
		x.Label("merged>=2")
	}
	if tombMerge > 0 {
		x.Label("merge-with-tombstone-input")
	}
	if exclOldest > 0 {
		x.Label("selection-excludes-oldest-with-tombstone")
	}
	x.Labelf("maxrank=%d", c.MaxRank)
	x.SetNonTrivial(tombMerge > 0)
	return nil
}
