package c18

import (
	"testing"

	"verif/internal/h"
)

func TestProp(t *testing.T) {
	h.Run(t, h.Spec[Case]{ID: "C18", Gen: Gen(), Prop: Prop, MayDie: true, Shrink: Shrink})
}
