// Package c18: documented concurrent use is data-race free and gives single-threaded answers.
// The test binary of this package is built with -race.
package c18

import (
	"bytes"
	"errors"
	"fmt"
	"path/filepath"
	"sort"
	"sync"
	"sync/atomic"

	"github.com/thomasjungblut/go-sstables/recordio"
	"github.com/thomasjungblut/go-sstables/sstables"
	"pgregory.net/rapid"
	"verif/internal/gen"
	"verif/internal/h"
	"verif/internal/rio"
	"verif/internal/tbl"
	"verif/props/c05"
)

type Call struct {
	Op string `json:"op"` // table: get contains range startingat | mmap: readat seeknext
	A  int    `json:"a"`
	B  int    `json:"b,omitempty"`
}

type Case struct {
	Kind   string    `json:"kind"` // db | table | mmap
	DB     *c05.Case `json:"db,omitempty"`
	NKeys  int       `json:"nkeys,omitempty"`
	Loader string    `json:"loader,omitempty"`
	DComp  int       `json:"dcomp,omitempty"`
	Procs  int       `json:"procs,omitempty"`
	Calls  [][]Call  `json:"calls,omitempty"` // per goroutine
}

func Gen() *rapid.Generator[Case] {
	return rapid.Custom(func(t *rapid.T) Case {
		var c Case
		c.Kind = rapid.SampledFrom([]string{"db", "table", "table", "mmap", "mmap"}).Draw(t, "kind")
		c.Procs = rapid.SampledFrom([]int{2, 4, 16}).Draw(t, "procs")
		switch c.Kind {
		case "db":
			d := c05.Gen().Draw(t, "db")
			d.DisjointKeys = true
			c.DB = &d
		default:
			c.NKeys = rapid.IntRange(1, 80).Draw(t, "nkeys")
			c.Loader = rapid.SampledFrom([]string{"slice", "slice", "skiplist"}).Draw(t, "loader")
			c.DComp = rapid.IntRange(0, 3).Draw(t, "dcomp")
			ng := rapid.IntRange(2, 16).Draw(t, "goroutines")
			ops := []string{"get", "contains", "range", "startingat"}
			if c.Kind == "mmap" {
				ops = []string{"readat", "seeknext", "seeknext"}
			}
			for g := 0; g < ng; g++ {
				n := rapid.IntRange(5, 60).Draw(t, "ncalls")
				var calls []Call
				for i := 0; i < n; i++ {
					calls = append(calls, Call{Op: rapid.SampledFrom(ops).Draw(t, "op"), A: rapid.IntRange(0, 2*c.NKeys+1).Draw(t, "a"), B: rapid.IntRange(0, 2*c.NKeys+1).Draw(t, "b")})
				}
				c.Calls = append(c.Calls, calls)
			}
		}
		return c
	})
}

func Shrink(c Case) []Case {
	var out []Case
	if c.DB != nil {
		for _, d := range c05.Shrink(*c.DB) {
			cp := c
			dd := d
			cp.DB = &dd
			out = append(out, cp)
		}
		return out
	}
	for _, cl := range h.ShrinkList(c.Calls) {
		if len(cl) >= 2 {
			cp := c
			cp.Calls = cl
			out = append(out, cp)
		}
	}
	return out
}

// key i of the table is "k%05d" of 2*i+1: odd numbers are present, even numbers are gaps.
func keyOf(n int) []byte { return []byte(fmt.Sprintf("k%05d", n)) }

type inflight struct {
	cur, max int32
}

func (f *inflight) enter() {
	n := atomic.AddInt32(&f.cur, 1)
	for {
		m := atomic.LoadInt32(&f.max)
		if n <= m || atomic.CompareAndSwapInt32(&f.max, m, n) {
			return
		}
	}
}
func (f *inflight) leave() { atomic.AddInt32(&f.cur, -1) }

func Prop(c Case, x *h.Ctx) *h.Violation {
	x.Label("kind=" + c.Kind)
	switch c.Kind {
	case "db":
		return dbProp(c, x)
	case "table":
		return tableProp(c, x)
	default:
		return mmapProp(c, x)
	}
}

func dbProp(c Case, x *h.Ctx) *h.Violation {
	dir, done := h.Scratch("c18db")
	defer done()
	res, v := c05.Run(*c.DB, dir)
	if v != nil {
		return v
	}
	// each client owns its hot keys: its results must equal its own sequential execution
	d := c.DB
	for ci, ops := range d.Clients {
		own := map[int]string{}
		for j, o := range ops {
			want := "false/"
			if o.Key >= d.Hot { // cold key: written once in the setup, read-only afterwards
				want = fmt.Sprintf("true/init-%d", o.Key)
				if o.Op != "get" {
					want = "false/"
				}
			} else {
				switch o.Op {
				case "put":
					own[o.Key] = fmt.Sprintf("c%d-%d", ci, j)
				case "delete":
					delete(own, o.Key)
				default:
					if v, ok := own[o.Key]; ok {
						want = "true/" + v
					}
				}
			}
			if got := res.PerClient[ci][j]; got != want {
				return h.V("race/db-wrong-answer", "client %d operation %d %s(key %d) returned %q, executed alone it returns %q", ci, j, o.Op, o.Key, got, want)
			}
		}
	}
	x.SetNonTrivial(len(d.Clients) >= 4 || res.Overlap || res.Flushes > 0)
	return nil
}

func tableProp(c Case, x *h.Ctx) *h.Violation {
	dir, done := h.Scratch("c18t")
	defer done()
	var kvs []tbl.KV
	for i := 0; i < c.NKeys; i++ {
		kvs = append(kvs, tbl.KV{K: keyOf(2*i + 1), V: gen.Blob{Pat: "text", Len: 5 + i%40, Seed: uint64(i)}})
	}
	if err := tbl.Write(dir, kvs, tbl.WOpts{DataComp: c.DComp, WriteBuf: 4096, BloomN: 100}); err != nil {
		return h.V("race/table-write", "%v", err)
	}
	r, err := tbl.Open(dir, tbl.ROpts{Loader: c.Loader, ReadBuf: 4096})
	if err != nil {
		return h.V("race/table-open", "%v", err)
	}
	defer r.Close()
	present := func(n int) (int, bool) { return n / 2, n%2 == 1 && n/2 < c.NKeys }
	lower := func(n int) int { // index of the first key >= keyOf(n)
		i := sort.Search(c.NKeys, func(i int) bool { return 2*i+1 >= n })
		return i
	}
	var fl inflight
	var wg sync.WaitGroup
	var first atomic.Value
	fail := func(format string, a ...any) { first.CompareAndSwap(nil, fmt.Sprintf(format, a...)) }
	drain := func(it sstables.SSTableIteratorI, lo, hi int, what string) {
		for i := lo; ; i++ {
			k, v, err := it.Next()
			if errors.Is(err, sstables.Done) {
				if i != hi {
					fail("%s ended at index %d, want %d", what, i, hi)
				}
				return
			}
			if err != nil {
				fail("%s: %v", what, err)
				return
			}
			if i >= hi || !bytes.Equal(k, kvs[i].K) || !bytes.Equal(v, kvs[i].V.Bytes()) {
				fail("%s step %d returned key %s", what, i-lo, k)
				return
			}
		}
	}
	for g, calls := range c.Calls {
		wg.Add(1)
		go func(g int, calls []Call) {
			defer wg.Done()
			for _, cl := range calls {
				fl.enter()
				switch cl.Op {
				case "get":
					i, ok := present(cl.A)
					v, err := r.Get(keyOf(cl.A))
					if ok && (err != nil || !bytes.Equal(v, kvs[i].V.Bytes())) {
						fail("goroutine %d Get(%s) = (%.20q,%v)", g, keyOf(cl.A), v, err)
					}
					if !ok && !errors.Is(err, sstables.NotFound) {
						fail("goroutine %d Get(%s) of an absent key: %v", g, keyOf(cl.A), err)
					}
				case "contains":
					_, ok := present(cl.A)
					got, err := r.Contains(keyOf(cl.A))
					if err != nil || got != ok {
						fail("goroutine %d Contains(%s) = (%v,%v) want %v", g, keyOf(cl.A), got, err, ok)
					}
				case "range":
					lo, hi := cl.A, cl.B
					if lo > hi {
						lo, hi = hi, lo
					}
					it, err := r.ScanRange(keyOf(lo), keyOf(hi))
					if err != nil {
						fail("goroutine %d ScanRange: %v", g, err)
						break
					}
					end := lower(hi)
					if _, ok := present(hi); ok {
						end++
					}
					drain(it, lower(lo), end, fmt.Sprintf("goroutine %d ScanRange(%s,%s)", g, keyOf(lo), keyOf(hi)))
				case "startingat":
					it, err := r.ScanStartingAt(keyOf(cl.A))
					if err != nil {
						fail("goroutine %d ScanStartingAt: %v", g, err)
						break
					}
					drain(it, lower(cl.A), c.NKeys, fmt.Sprintf("goroutine %d ScanStartingAt(%s)", g, keyOf(cl.A)))
				}
				fl.leave()
			}
		}(g, calls)
	}
	wg.Wait()
	if e := first.Load(); e != nil {
		return h.V("race/table-wrong-answer", "%s (a call on a shared table reader returned something else than when executed alone)", e.(string))
	}
	x.Label("loader=" + c.Loader)
	x.SetNonTrivial(len(c.Calls) >= 4 && fl.max >= 2)
	return nil
}

func mmapProp(c Case, x *h.Ctx) *h.Violation {
	dir, done := h.Scratch("c18m")
	defer done()
	path := filepath.Join(dir, "f.rio")
	var recs [][]byte
	for i := 0; i < c.NKeys; i++ {
		switch i % 7 {
		case 3:
			recs = append(recs, nil)
		case 5:
			recs = append(recs, []byte{})
		default:
			recs = append(recs, gen.Blob{Pat: []string{"rand", "x91", "marker", "text"}[i%4], Len: 3 + (i*37)%300, Seed: uint64(i)}.Bytes())
		}
	}
	offs, size, err := rio.WriteSimple(path, c.DComp, 4096, recs)
	if err != nil {
		return h.V("race/mmap-write", "%v", err)
	}
	m, err := recordio.NewMemoryMappedReaderWithPath(path)
	if err != nil {
		return h.V("race/mmap-open", "%v", err)
	}
	if err := m.Open(); err != nil {
		return h.V("race/mmap-open", "%v", err)
	}
	defer m.Close()
	eq := func(a, b []byte) bool { return bytes.Equal(a, b) && (a == nil) == (b == nil) }
	var fl inflight
	var wg sync.WaitGroup
	var first atomic.Value
	fail := func(format string, a ...any) { first.CompareAndSwap(nil, fmt.Sprintf(format, a...)) }
	for g, calls := range c.Calls {
		wg.Add(1)
		go func(g int, calls []Call) {
			defer wg.Done()
			for _, cl := range calls {
				fl.enter()
				switch cl.Op {
				case "readat":
					i := cl.A % c.NKeys
					got, err := m.ReadNextAt(offs[i])
					if err != nil || !eq(got, recs[i]) {
						fail("goroutine %d ReadNextAt(record %d) = (%d bytes,%v)", g, i, len(got), err)
					}
				case "seeknext":
					o := uint64(cl.A*131+cl.B) % (size + 1)
					wi := sort.Search(len(offs), func(i int) bool { return offs[i] >= o })
					off, got, err := m.SeekNext(o)
					if wi == len(offs) {
						if err == nil {
							fail("goroutine %d SeekNext(%d) past the last record returned offset %d", g, o, off)
						}
					} else if err != nil || off != offs[wi] || !eq(got, recs[wi]) {
						fail("goroutine %d SeekNext(%d) = (%d,%d bytes,%v) want record %d at %d", g, o, off, len(got), err, wi, offs[wi])
					}
				}
				fl.leave()
			}
		}(g, calls)
	}
	wg.Wait()
	if e := first.Load(); e != nil {
		return h.V("race/mmap-wrong-answer", "%s (a call on a shared mmap reader returned something else than when executed alone)", e.(string))
	}
	x.SetNonTrivial(len(c.Calls) >= 4 && fl.max >= 2)
	return nil
}
