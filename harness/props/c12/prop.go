// Package c12: a cut or header-damaged RecordIO file yields only genuine records, in order.
package c12

import (
	"bytes"
	"encoding/binary"
	"errors"
	"fmt"
	"io"
	"os"
	"path/filepath"

	"github.com/thomasjungblut/go-sstables/recordio"
	"pgregory.net/rapid"
	"verif/internal/gen"
	"verif/internal/h"
	"verif/internal/rio"
)

type Case struct {
	Comp int        `json:"comp"`
	WBuf int        `json:"wbuf"`
	RBuf int        `json:"rbuf"`
	Recs []gen.Blob `json:"recs"`
}

func Gen() *rapid.Generator[Case] {
	return rapid.Custom(func(t *rapid.T) Case {
		var c Case
		c.Comp = rapid.IntRange(0, 3).Draw(t, "comp")
		c.WBuf = rapid.SampledFrom([]int{1, 7, 64, 4096}).Draw(t, "wbuf")
		c.RBuf = rapid.SampledFrom([]int{1, 2, 4, 7, 64, 4096}).Draw(t, "rbuf")
		n := rapid.IntRange(1, 12).Draw(t, "n")
		maxLen := 150
		if rapid.IntRange(0, 7).Draw(t, "long") == 0 {
			maxLen = 3000
		}
		bg := gen.BlobGen(true, true, []int{64, 128}, maxLen)
		for i := 0; i < n; i++ {
			c.Recs = append(c.Recs, bg.Draw(t, "rec"))
		}
		// a record whose header checksum is a short varint (fewer than five bytes) followed by a payload that starts with
		// 0x00, and not the last record: the one place where a continuation bit set on the last checksum byte still decodes
		// to the same checksum value (one header in sixteen times one payload in 256 - looked up, not hoped for)
		if hb := gen.HeaderBoundaryLengths()[1]; len(hb) > 0 && rapid.IntRange(0, 1).Draw(t, "shortsum") == 0 {
			k := 0
			for k < len(hb) && hb[k] <= maxLen {
				k++
			}
			if k > 0 {
				b := gen.Blob{Pat: "zero", Len: hb[rapid.IntRange(0, k-1).Draw(t, "shortsumLen")]}
				at := rapid.IntRange(0, len(c.Recs)-1).Draw(t, "shortsumAt")
				c.Recs = append(c.Recs[:at], append([]gen.Blob{b}, c.Recs[at:]...)...)
			}
		}
		return c
	})
}

func eq(a, b []byte) bool { return bytes.Equal(a, b) && (a == nil) == (b == nil) }

func show(b []byte) string {
	if b == nil {
		return "nil"
	}
	if len(b) > 20 {
		return fmt.Sprintf("%x…(%d)", b[:20], len(b))
	}
	return fmt.Sprintf("%x", b)
}

type env struct {
	path  string
	rbuf  int
	recs  [][]byte
	offs  []uint64
	limit int
}

// readSeq opens the sequential reader on the damaged copy and reads until EOF or error.
func (e *env) readSeq() (recs [][]byte, openErr, endErr error) {
	r, err := recordio.NewFileReader(recordio.ReaderPath(e.path), recordio.ReaderBufferSizeBytes(e.rbuf))
	if err != nil {
		return nil, err, nil
	}
	defer r.Close()
	if err := r.Open(); err != nil {
		return nil, err, nil
	}
	for {
		rec, err := r.ReadNext()
		if err != nil {
			if errors.Is(err, io.EOF) {
				return recs, nil, nil
			}
			return recs, nil, err
		}
		recs = append(recs, rec)
		if len(recs) > e.limit {
			return recs, nil, nil
		}
	}
}

func (e *env) write(b []byte) {
	if err := os.WriteFile(e.path, b, 0o644); err != nil {
		panic(h.Infra{Msg: "harness file operation failed: " + err.Error()})
	}
}

var fieldNames = [5]string{"marker", "nilflag", "usize", "csize", "crc"}

func Prop(c Case, x *h.Ctx) *h.Violation {
	dir, done := h.Scratch("c12")
	defer done()
	orig := filepath.Join(dir, "orig.rio")
	recs := make([][]byte, len(c.Recs))
	for i, b := range c.Recs {
		recs[i] = b.Bytes()
	}
	offs, size, err := rio.WriteSimple(orig, c.Comp, c.WBuf, recs)
	if err != nil {
		return h.V("damage/write-err", "writing the pristine file: %v", err)
	}
	data, err := os.ReadFile(orig)
	if err != nil {
		panic(h.Infra{Msg: "harness file operation failed: " + err.Error()})
	}
	if uint64(len(data)) != size {
		return h.V("damage/size", "pristine file has %d bytes, Size() said %d", len(data), size)
	}
	e := &env{path: filepath.Join(dir, "damaged.rio"), rbuf: c.RBuf, recs: recs, offs: offs, limit: len(recs) + 2}
	ends := make([]uint64, len(offs)) // end offset (exclusive) of record i
	hdrs := make([]rio.Header, len(offs))
	for i := range offs {
		if i+1 < len(offs) {
			ends[i] = offs[i+1]
		} else {
			ends[i] = size
		}
		hd, ok := rio.ParseHeader(data[offs[i]:ends[i]])
		if !ok {
			panic(h.Infra{Msg: "harness decoder out of step with the on-disk format (not a verdict): " + fmt.Sprintf("independent decoder cannot parse header of record %d at %d", i, offs[i])})
		}
		hdrs[i] = hd
	}
	x.Labelf("comp=%d", c.Comp)
	for i := range recs {
		if hd := hdrs[i]; c.Comp == 0 && i+1 < len(recs) && len(recs[i]) > 0 && recs[i][0] == 0 && hd.Len-hd.FieldStart[4] < 5 {
			x.Label("short-checksum-then-zero-payload-not-last")
			break
		}
	}

	// ---------------- 1. every truncation length ----------------
	for cut := 0; cut <= len(data); cut++ {
		e.write(data[:cut])
		contained := 0
		for contained < len(recs) && ends[contained] <= uint64(cut) {
			contained++
		}
		kind := "boundary"
		if contained < len(recs) && uint64(cut) > offs[contained] {
			hd := hdrs[contained]
			switch {
			case uint64(cut) < offs[contained]+uint64(hd.Len):
				kind = "inside-header"
			case uint64(cut) == offs[contained]+uint64(hd.Len):
				kind = "between-header-and-payload"
			case c.Comp != 0:
				kind = "inside-compressed-payload"
			default:
				kind = "inside-payload"
			}
		} else if cut < recordio.FileHeaderSizeBytes {
			kind = "inside-file-header"
		}
		x.Sub(fmt.Sprintf("cut%d", cut), kind != "boundary")
		x.Label("cut:" + kind)
		got, openErr, _ := e.readSeq()
		if openErr != nil {
			if cut >= recordio.FileHeaderSizeBytes {
				return h.V("damage/cut/open", "file cut at %d of %d (kind %s): Open failed: %v", cut, len(data), kind, openErr)
			}
			continue
		}
		if len(got) != contained {
			return h.V("damage/cut/count", "file cut at %d of %d (%s): sequential reader returned %d records, %d are completely contained", cut, len(data), kind, len(got), contained)
		}
		for i := range got {
			if !eq(got[i], recs[i]) {
				return h.V("damage/cut/content", "file cut at %d: record %d = %s want %s", cut, i, show(got[i]), show(recs[i]))
			}
		}
		// random access
		if cut >= recordio.FileHeaderSizeBytes {
			m, err := recordio.NewMemoryMappedReaderWithPath(e.path)
			if err != nil {
				return h.V("damage/cut/mmap-open", "file cut at %d: mmap reader: %v", cut, err)
			}
			if err := m.Open(); err != nil {
				_ = m.Close()
				return h.V("damage/cut/mmap-open", "file cut at %d: mmap Open: %v", cut, err)
			}
			for i := range recs {
				rec, err := m.ReadNextAt(offs[i])
				if i < contained {
					if err != nil || !eq(rec, recs[i]) {
						_ = m.Close()
						return h.V("damage/cut/read-at", "file cut at %d: ReadNextAt(record %d) = (%s,%v) want %s", cut, i, show(rec), err, show(recs[i]))
					}
				} else if err == nil {
					_ = m.Close()
					return h.V("damage/cut/read-at-phantom", "file cut at %d (%s): ReadNextAt(record %d at %d) returned %s without error although the record is not completely contained", cut, kind, i, offs[i], show(rec))
				}
			}
			_ = m.Close()
		}
	}

	// ---------------- 2. every record-header byte, altered ----------------
	var repl []int
	if len(data) <= 2048 {
		for v := 0; v < 256; v++ {
			repl = append(repl, v)
		}
	}
	buf := make([]byte, len(data))
	for ri := range recs {
		hd := hdrs[ri]
		for hb := 0; hb < hd.Len; hb++ {
			pos := int(offs[ri]) + hb
			field := 0
			for f := 4; f >= 0; f-- {
				if hb >= hd.FieldStart[f] {
					field = f
					break
				}
			}
			o := data[pos]
			vals := repl
			if vals == nil {
				vals = []int{int(o ^ 1), int(o ^ 0x80), int(o ^ 0x40), 0x00, 0xff, int(o | 0x80), int(o & 0x7f), 0x91, 0x8d, 0x4c, 0x01}
			}
			seen := map[int]bool{int(o): true}
			for _, nv := range vals {
				if seen[nv] {
					continue
				}
				seen[nv] = true
				copy(buf, data)
				buf[pos] = byte(nv)
				e.write(buf)
				x.Sub(fmt.Sprintf("hdr%d.%d=%d", ri, hb, nv), true)
				x.Label("hdr:" + fieldNames[field])
				fp := "damage/header/" + fieldNames[field]
				got, openErr, _ := e.readSeq()
				if openErr != nil {
					return h.V(fp+"/open", "byte %d (record %d %s) %02x->%02x: Open failed: %v", pos, ri, fieldNames[field], o, nv, openErr)
				}
				if len(got) > ri {
					overlong := field == 4 && byte(nv) == o|0x80
					if overlong {
						fp += "/overlong-varint"
					}
					return h.V(fp+"/returned-data", "byte %d (record %d field %s) %02x->%02x: sequential reader returned %d records (record %d as %s, written %s); reading a record with a damaged header must fail",
						pos, ri, fieldNames[field], o, nv, len(got), ri, show(got[ri]), show(recs[ri]))
				}
				if len(got) < ri {
					return h.V(fp+"/lost-earlier", "byte %d (record %d) %02x->%02x: only %d of the %d intact records before it were returned", pos, ri, o, nv, len(got), ri)
				}
				for i := range got {
					if !eq(got[i], recs[i]) {
						return h.V(fp+"/content", "byte %d %02x->%02x: record %d = %s want %s", pos, o, nv, i, show(got[i]), show(recs[i]))
					}
				}
				m, err := recordio.NewMemoryMappedReaderWithPath(e.path)
				if err != nil {
					panic(err)
				}
				if err := m.Open(); err != nil {
					_ = m.Close()
					return h.V(fp+"/mmap-open", "mmap Open: %v", err)
				}
				rec, err := m.ReadNextAt(offs[ri])
				_ = m.Close()
				if err == nil {
					overlong := field == 4 && byte(nv) == o|0x80
					if overlong {
						fp += "/overlong-varint"
					}
					return h.V(fp+"/read-at-returned-data", "byte %d (record %d field %s) %02x->%02x: ReadNextAt returned %s without error (written %s)", pos, ri, fieldNames[field], o, nv, show(rec), show(recs[ri]))
				}
			}
		}
	}

	// ---------------- 3. unsupported file header values ----------------
	type hv struct {
		off int
		val uint32
		n   string
	}
	var hvs []hv
	// "unsupported" is what the repository itself declares: versions outside Version1..CurrentVersion, compression
	// codes its compressor factory refuses
	for _, v := range []uint32{0, recordio.CurrentVersion + 1, recordio.CurrentVersion + 2, 255, 256, 1 << 31, 1<<32 - 1} {
		hvs = append(hvs, hv{0, v, "version"})
	}
	for _, v := range []uint32{4, 5, 6, 255, 256, 1 << 31, 1<<32 - 1} {
		if _, err := recordio.NewCompressorForType(int(v)); err == nil {
			x.Labelf("compression-code-%d-is-supported", v)
			continue
		}
		hvs = append(hvs, hv{4, v, "compression"})
	}
	for _, q := range hvs {
		copy(buf, data)
		binary.LittleEndian.PutUint32(buf[q.off:], q.val)
		e.write(buf)
		x.Sub(fmt.Sprintf("fh%s=%d", q.n, q.val), true)
		x.Label("filehdr:" + q.n)
		got, openErr, _ := e.readSeq()
		if openErr == nil {
			return h.V("damage/file-header/"+q.n, "file header %s=%d: sequential reader opened the file (and returned %d records)", q.n, q.val, len(got))
		}
		m, err := recordio.NewMemoryMappedReaderWithPath(e.path)
		if err != nil {
			panic(err)
		}
		err = m.Open()
		_ = m.Close()
		if err == nil {
			return h.V("damage/file-header/"+q.n, "file header %s=%d: mmap reader opened the file", q.n, q.val)
		}
	}
	return nil
}

// Multi is the light variant used by the native fuzz target: ONE damaged copy per execution in which several header
// bytes of ONE record are altered (multi-byte header damage; the exhaustive enumeration above is single-byte).
type Multi struct {
	File    Case  `json:"file"`
	Record  int   `json:"record"`
	Changes []Chg `json:"changes"`
}

type Chg struct {
	Byte int  `json:"byte"`
	Val  byte `json:"val"`
}

func GenMulti() *rapid.Generator[Multi] {
	return rapid.Custom(func(t *rapid.T) Multi {
		m := Multi{File: Gen().Draw(t, "file"), Record: rapid.IntRange(0, 11).Draw(t, "record")}
		n := rapid.IntRange(2, 5).Draw(t, "nchanges")
		for i := 0; i < n; i++ {
			m.Changes = append(m.Changes, Chg{Byte: rapid.IntRange(0, 40).Draw(t, "byte"), Val: rapid.Byte().Draw(t, "val")})
		}
		return m
	})
}

func PropMulti(m Multi, x *h.Ctx) *h.Violation {
	c := m.File
	dir, done := h.Scratch("c12m")
	defer done()
	orig := filepath.Join(dir, "orig.rio")
	recs := make([][]byte, len(c.Recs))
	for i, b := range c.Recs {
		recs[i] = b.Bytes()
	}
	offs, size, err := rio.WriteSimple(orig, c.Comp, c.WBuf, recs)
	if err != nil {
		return h.V("damage/write-err", "writing the pristine file: %v", err)
	}
	data, err := os.ReadFile(orig)
	if err != nil {
		panic(h.Infra{Msg: "harness file operation failed: " + err.Error()})
	}
	ri := m.Record % len(recs)
	end := size
	if ri+1 < len(offs) {
		end = offs[ri+1]
	}
	hd, ok := rio.ParseHeader(data[offs[ri]:end])
	if !ok {
		panic(h.Infra{Msg: "harness decoder out of step with the on-disk format (not a verdict): " + fmt.Sprintf("independent decoder cannot parse header of record %d", ri)})
	}
	buf := append([]byte{}, data...)
	desc := ""
	for _, ch := range m.Changes {
		p := int(offs[ri]) + ch.Byte%hd.Len
		buf[p] = ch.Val
		desc += fmt.Sprintf("byte %d=%02x ", p, ch.Val)
	}
	if bytes.Equal(buf, data) {
		return nil
	}
	e := &env{path: filepath.Join(dir, "damaged.rio"), rbuf: c.RBuf, recs: recs, offs: offs, limit: len(recs) + 2}
	e.write(buf)
	got, openErr, _ := e.readSeq()
	if openErr != nil {
		return h.V("damage/multi/open", "%s(record %d): Open failed: %v", desc, ri, openErr)
	}
	if len(got) > ri {
		return h.V("damage/multi/returned-data", "%s(header of record %d): the sequential reader returned %d records (record %d as %s, written %s)", desc, ri, len(got), ri, show(got[ri]), show(recs[ri]))
	}
	if len(got) < ri {
		return h.V("damage/multi/lost-earlier", "%s(header of record %d): only %d of the %d intact records before it were returned", desc, ri, len(got), ri)
	}
	for i := range got {
		if !eq(got[i], recs[i]) {
			return h.V("damage/multi/content", "%s: record %d = %s want %s", desc, i, show(got[i]), show(recs[i]))
		}
	}
	mr, err := recordio.NewMemoryMappedReaderWithPath(e.path)
	if err != nil {
		panic(err)
	}
	if err := mr.Open(); err != nil {
		_ = mr.Close()
		return h.V("damage/multi/mmap-open", "mmap Open: %v", err)
	}
	rec, err := mr.ReadNextAt(offs[ri])
	_ = mr.Close()
	if err == nil {
		return h.V("damage/multi/read-at-returned-data", "%s(header of record %d): ReadNextAt returned %s without error (written %s)", desc, ri, show(rec), show(recs[ri]))
	}
	x.NonTrivial()
	return nil
}
