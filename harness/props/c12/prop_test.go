package c12

import (
	"testing"

	"verif/internal/h"
)

func TestProp(t *testing.T) {
	h.Run(t, h.Spec[Case]{ID: "C12", Gen: Gen(), Prop: Prop, CountSubs: true})
}

// FuzzProp is the native coverage-guided fuzz target (thorough tier): multi-byte damage, ONE damaged copy per execution.
func FuzzProp(f *testing.F) {
	h.Fuzz(f, h.Spec[Multi]{ID: "C12", Gen: GenMulti(), Prop: PropMulti})
}

// TestMulti runs the multi-byte variant under rapid (sanity of the fuzz target).
func TestMulti(t *testing.T) {
	h.Run(t, h.Spec[Multi]{ID: "C12", Gen: GenMulti(), Prop: PropMulti})
}
