package c20

import (
	"testing"

	"verif/internal/h"
)

func TestProp(t *testing.T) {
	h.Run(t, h.Spec[Case]{ID: "C20", Gen: Gen(), Prop: Prop})
}
