// Package c20: the published Kaitai schema decodes every written file to the same records.
package c20

import (
	"bytes"
	"fmt"
	"go/ast"
	"go/constant"
	"go/parser"
	"go/token"
	"go/types"
	"os"
	"path/filepath"
	"runtime"
	"sync"

	"github.com/kaitai-io/kaitai_struct_go_runtime/kaitai"
	"github.com/thomasjungblut/go-sstables/kaitai/gokaitai"
	"github.com/thomasjungblut/go-sstables/recordio"
	"pgregory.net/rapid"
	"verif/internal/gen"
	"verif/internal/h"
	"verif/internal/rio"
)

type Case struct {
	Comp int        `json:"comp"`
	WBuf int        `json:"wbuf"`
	Recs []gen.Blob `json:"recs"`
	// Back > 0: after Recs the writer seeks back to the start of the Back-th record from the end and writes Tail from
	// there (a rolled-back write, as the table writer does it); the file then holds Recs[:n-Back] + Tail
	Back int        `json:"back,omitempty"`
	Tail []gen.Blob `json:"tail,omitempty"`
}

func Gen() *rapid.Generator[Case] {
	return rapid.Custom(func(t *rapid.T) Case {
		var c Case
		c.Comp = rapid.IntRange(0, 3).Draw(t, "comp")
		c.WBuf = rapid.SampledFrom([]int{1, 64, 4096, 4 << 20}).Draw(t, "wbuf")
		n := rapid.IntRange(0, 12).Draw(t, "n")
		bg := gen.BlobGen(true, true, []int{64, 1024, 4096}, 5000)
		for i := 0; i < n; i++ {
			c.Recs = append(c.Recs, bg.Draw(t, "rec"))
		}
		if n > 0 && rapid.IntRange(0, 3).Draw(t, "rewind") == 0 {
			c.Back = rapid.IntRange(1, min(n, 3)).Draw(t, "back")
			nt := rapid.IntRange(0, 2).Draw(t, "ntail")
			for i := 0; i < nt; i++ {
				c.Tail = append(c.Tail, bg.Draw(t, "tailrec"))
			}
		}
		return c
	})
}

var (
	enumOnce sync.Once
	enumVals map[int64]string
	enumErr  error
)

// schemaCompressionCodes reads the constant set of RecordioV4_Compression from the generated
// package source in the tree under test (the artefact the repository publishes).
func schemaCompressionCodes() (map[int64]string, error) {
	enumOnce.Do(func() {
		_, self, _, _ := runtime.Caller(0)
		_ = self
		// the gokaitai package directory is found through a symbol of that package
		dir := os.Getenv("VERIF_REPO")
		if dir == "" {
			dir = "/repo"
		}
		src := filepath.Join(dir, "kaitai", "gokaitai", "recordio_v4.go")
		fset := token.NewFileSet()
		f, err := parser.ParseFile(fset, src, nil, 0)
		if err != nil {
			enumErr = err
			return
		}
		// constants are evaluated by the type checker (literal values, iota, expressions alike); the imported runtime
		// package is not needed for that, so imports resolve to empty packages and the resulting errors are ignored
		conf := types.Config{Importer: emptyImporter{}, Error: func(error) {}}
		pkg, _ := conf.Check("gokaitai", fset, []*ast.File{f}, nil)
		enumVals = map[int64]string{}
		if pkg == nil {
			enumErr = fmt.Errorf("cannot type-check %s", src)
			return
		}
		for _, name := range pkg.Scope().Names() {
			c, ok := pkg.Scope().Lookup(name).(*types.Const)
			if !ok {
				continue
			}
			nt, ok := c.Type().(*types.Named)
			if !ok || nt.Obj().Name() != "RecordioV4_Compression" {
				continue
			}
			if n, exact := constant.Int64Val(constant.ToInt(c.Val())); exact {
				enumVals[n] = name
			}
		}
	})
	return enumVals, enumErr
}

type emptyImporter struct{}

func (emptyImporter) Import(path string) (*types.Package, error) {
	return types.NewPackage(path, filepath.Base(path)), nil
}

func Prop(c Case, x *h.Ctx) *h.Violation {
	dir, done := h.Scratch("c20")
	defer done()
	path := filepath.Join(dir, "f.rio")
	final := c.Recs
	if c.Back > 0 && c.Back <= len(c.Recs) {
		final = append(append([]gen.Blob{}, c.Recs[:len(c.Recs)-c.Back]...), c.Tail...)
		x.Label("seek-back-and-rewrite")
	}
	recs := make([][]byte, len(final))
	hasNil, hasEmpty, hasData := false, false, false
	for i, b := range final {
		recs[i] = b.Bytes()
		switch {
		case recs[i] == nil:
			hasNil = true
		case len(recs[i]) == 0:
			hasEmpty = true
		default:
			hasData = true
		}
	}
	var (
		offs []uint64
		size uint64
		err  error
	)
	if !(c.Back > 0 && c.Back <= len(c.Recs)) {
		offs, size, err = rio.WriteSimple(path, c.Comp, c.WBuf, recs)
	} else {
		all := make([][]byte, len(c.Recs))
		for i, b := range c.Recs {
			all[i] = b.Bytes()
		}
		offs, size, err = rio.WriteRewound(path, c.Comp, c.WBuf, all, c.Back, recs[len(c.Recs)-c.Back:])
	}
	if err != nil {
		return h.V("kaitai/write-err", "writing file: %v", err)
	}
	data, err := os.ReadFile(path)
	if err != nil {
		panic(h.Infra{Msg: "harness file operation failed: " + err.Error()})
	}
	// native view 1: what the native reader returns
	native, err := rio.ReadAll(path, 4096, len(recs)+1)
	if err != nil || len(native) != len(recs) {
		return h.V("kaitai/native", "native reader: %d records, err %v (wrote %d)", len(native), err, len(recs))
	}
	// native view 2: stored bytes of each record, located with the offsets Write returned and an
	// independent header decoder
	type stored struct {
		nilFlag bool
		payload []byte
		usize   uint64
		csize   uint64
		crc     uint64
	}
	var st []stored
	for i, off := range offs {
		end := size
		if i+1 < len(offs) {
			end = offs[i+1]
		}
		hd, ok := rio.ParseHeader(data[off:end])
		if !ok {
			panic(h.Infra{Msg: "harness decoder out of step with the on-disk format (not a verdict): " + fmt.Sprintf("independent decoder cannot parse record %d", i)})
		}
		st = append(st, stored{hd.Nil, data[int(off)+hd.Len : end], hd.USize, hd.CSize, hd.CRC})
		if hd.Nil != (native[i] == nil) {
			panic(h.Infra{Msg: "harness decoder out of step with the on-disk format (not a verdict): " + fmt.Sprintf("record %d: on-disk nil flag %v, native reader nil=%v", i, hd.Nil, native[i] == nil)})
		}
	}

	fpc := fmt.Sprintf("kaitai/comp%d", c.Comp)
	codes, err := schemaCompressionCodes()
	if err != nil {
		panic(h.Infra{Msg: "harness decoder out of step with the on-disk format (not a verdict): " + fmt.Sprintf("cannot read the generated package: %v", err)})
	}
	if _, ok := codes[int64(c.Comp)]; !ok {
		return h.V(fpc+"/unknown-compression-code", "compression code %d written by the writer is not among the schema's constants %v", c.Comp, codes)
	}

	k := gokaitai.NewRecordioV4()
	if err := k.Read(kaitai.NewStream(bytes.NewReader(data)), nil, k); err != nil {
		kind := "parse"
		if hasNil && c.Comp != 0 {
			kind = "parse-nil-record"
		}
		return h.V(fpc+"/"+kind, "kaitai reader failed on a file of %d records (comp %d): %v", len(recs), c.Comp, err)
	}
	if k.FileHeader.Version != recordio.CurrentVersion || int(k.FileHeader.CompressionType) != c.Comp {
		return h.V(fpc+"/file-header", "kaitai file header version=%d compression=%d want %d/%d", k.FileHeader.Version, k.FileHeader.CompressionType, recordio.CurrentVersion, c.Comp)
	}
	if len(k.Record) != len(recs) {
		return h.V(fpc+"/count", "kaitai sees %d records, native reader %d", len(k.Record), len(recs))
	}
	for i, r := range k.Record {
		if (r.RecordNil == 1) != st[i].nilFlag {
			return h.V(fpc+"/nil-flag", "record %d: kaitai nil flag %d, native nil=%v", i, r.RecordNil, st[i].nilFlag)
		}
		if !bytes.Equal(r.Payload, st[i].payload) {
			return h.V(fpc+"/payload", "record %d: kaitai payload %d bytes, stored payload %d bytes (or different content)", i, len(r.Payload), len(st[i].payload))
		}
		u, err := r.UncompressedPayloadLen.Value()
		if err != nil || (!st[i].nilFlag && u != len(recs[i])) || uint64(u) != st[i].usize {
			return h.V(fpc+"/ulen", "record %d: kaitai uncompressed length %d (err %v), record has %d bytes, header says %d", i, u, err, len(recs[i]), st[i].usize)
		}
		// the remaining header fields must decode to what is on disk, too (multi-group variable-length integers)
		cl, err := r.CompressedPayloadLen.Value()
		if err != nil || uint64(cl) != st[i].csize {
			return h.V(fpc+"/clen", "record %d: kaitai compressed length %d (err %v), header says %d", i, cl, err, st[i].csize)
		}
		crc, err := r.Crc32Checksum.Value()
		if err != nil || uint64(crc) != st[i].crc {
			return h.V(fpc+"/crc", "record %d: kaitai header checksum %d (err %v), header says %d", i, crc, err, st[i].crc)
		}
		if !bytes.Equal(r.Magic, gen.Marker) {
			return h.V(fpc+"/magic", "record %d: kaitai magic %x", i, r.Magic)
		}
	}
	x.Labelf("comp=%d", c.Comp)
	x.SetNonTrivial(hasNil && hasEmpty && hasData)
	return nil
}
