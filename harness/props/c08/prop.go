// Package c08: merging or stacking tables equals the latest-wins union of their contents.
package c08

import (
	"bytes"
	"errors"
	"fmt"
	"path/filepath"
	"sort"

	"github.com/thomasjungblut/go-sstables/skiplist"
	"github.com/thomasjungblut/go-sstables/sstables"
	"github.com/thomasjungblut/go-sstables/sstables/proto"
	"pgregory.net/rapid"
	"verif/internal/gen"
	"verif/internal/h"
	"verif/internal/tbl"
)

type Case struct {
	Level   string     `json:"level"` // disk | slice
	Kind    string     `json:"kind"`  // super | merge | compact-latest | compact-skip
	Tables  [][]tbl.KV `json:"tables"`
	NilKey  bool       `json:"nil_key,omitempty"` // slice level: hand the empty key to the merger as nil (what table readers produce)
	W       tbl.WOpts  `json:"w"`
	Loaders []string   `json:"loaders,omitempty"`
	// Nest = [lo, hi): kind super only: the tables lo..hi-1 are first stacked into an inner SuperSSTableReader,
	// which then takes their place in the outer stack (a stacked reader is itself an SSTableReaderI).
	Nest []int `json:"nest,omitempty"`
}

func Gen() *rapid.Generator[Case] {
	return rapid.Custom(func(t *rapid.T) Case {
		var c Case
		c.Level = rapid.SampledFrom([]string{"slice", "slice", "slice", "disk"}).Draw(t, "level")
		c.Kind = rapid.SampledFrom([]string{"super", "super", "merge", "compact-latest", "compact-skip"}).Draw(t, "kind")
		nk := rapid.IntRange(1, 12).Draw(t, "nkeys")
		uni := rapid.SliceOfN(gen.KeyGen(true, 60), nk, nk).Draw(t, "universe")
		if rapid.IntRange(0, 2).Draw(t, "withEmptyKey") == 0 {
			uni = append(uni, []byte{})
		}
		uni = gen.SortedDistinct(uni)
		nt := rapid.IntRange(1, 6).Draw(t, "ntables")
		vg := gen.BlobGen(true, true, []int{16}, 80)
		c.Tables = make([][]tbl.KV, nt)
		if c.Kind == "merge" {
			// plain Merge is specified for disjoint inputs: every key goes to exactly one table
			for _, k := range uni {
				ti := rapid.IntRange(0, nt-1).Draw(t, "owner")
				c.Tables[ti] = append(c.Tables[ti], tbl.KV{K: k, V: vg.Draw(t, "val")})
			}
		} else {
			for ti := 0; ti < nt; ti++ {
				density := rapid.IntRange(0, 4).Draw(t, "density") // 0 = empty table, 4 = every key
				for _, k := range uni {
					if density == 4 || (density > 0 && rapid.IntRange(1, 4).Draw(t, "in") <= density) {
						c.Tables[ti] = append(c.Tables[ti], tbl.KV{K: k, V: vg.Draw(t, "val")})
					}
				}
			}
		}
		c.NilKey = rapid.Bool().Draw(t, "nilkey")
		if c.Kind == "super" && nt >= 2 && rapid.IntRange(0, 2).Draw(t, "nested") == 0 {
			lo := rapid.IntRange(0, nt-2).Draw(t, "nestLo")
			hi := rapid.IntRange(lo+2, nt).Draw(t, "nestHi")
			c.Nest = []int{lo, hi}
			// a stack omits tombstoned keys from its scans but not from Get, so as a "table" of an outer stack it is only
			// well defined without tombstones: the nested tables hold live, non-empty values only
			for ti := lo; ti < hi; ti++ {
				for i := range c.Tables[ti] {
					if len(c.Tables[ti][i].V.Bytes()) == 0 {
						c.Tables[ti][i].V = gen.Blob{Lit: []byte{byte(ti + 1)}}
					}
				}
			}
		}
		if c.Level == "disk" {
			c.W = tbl.WOptsGen().Draw(t, "w")
			c.W.Simple = false
			for range c.Tables {
				c.Loaders = append(c.Loaders, rapid.SampledFrom([]string{"slice", "skiplist", "disk"}).Draw(t, "loader"))
			}
		}
		return c
	})
}

type pair struct {
	k, v []byte
}

// sliceReader is a slice-backed SSTableReaderI, so the stacked reader can be driven without disk.
type sliceReader struct {
	sstables.SSTableReaderI // nil: only there so that the fake keeps compiling when the interface grows
	ps                      []pair
	nilKey                  bool
}

func (s *sliceReader) key(k []byte) []byte {
	if s.nilKey && len(k) == 0 {
		return nil
	}
	return k
}
func (s *sliceReader) find(k []byte) (int, bool) {
	i := sort.Search(len(s.ps), func(i int) bool { return bytes.Compare(s.ps[i].k, k) >= 0 })
	return i, i < len(s.ps) && bytes.Equal(s.ps[i].k, k)
}
func (s *sliceReader) Contains(k []byte) (bool, error) { _, ok := s.find(k); return ok, nil }
func (s *sliceReader) Get(k []byte) ([]byte, error) {
	i, ok := s.find(k)
	if !ok {
		return nil, sstables.NotFound
	}
	return s.ps[i].v, nil
}
func (s *sliceReader) iter(lo, hi int) sstables.SSTableIteratorI {
	return &sliceIt{r: s, pos: lo, end: hi}
}
func (s *sliceReader) Scan() (sstables.SSTableIteratorI, error) { return s.iter(0, len(s.ps)), nil }
func (s *sliceReader) ScanStartingAt(k []byte) (sstables.SSTableIteratorI, error) {
	i, _ := s.find(k)
	return s.iter(i, len(s.ps)), nil
}
func (s *sliceReader) ScanRange(lo, hi []byte) (sstables.SSTableIteratorI, error) {
	if bytes.Compare(lo, hi) > 0 {
		return nil, errors.New("keyHigher is lower than keyLower")
	}
	i, _ := s.find(lo)
	j, ok := s.find(hi)
	if ok {
		j++
	}
	return s.iter(i, j), nil
}
func (s *sliceReader) Close() error { return nil }

// MetaData is as truthful as that of a real table (a stacked reader may prune tables by their key range).
func (s *sliceReader) MetaData() *proto.MetaData {
	md := &proto.MetaData{NumRecords: uint64(len(s.ps)), Version: 1}
	if len(s.ps) > 0 {
		md.MinKey = append([]byte{}, s.ps[0].k...)
		md.MaxKey = append([]byte{}, s.ps[len(s.ps)-1].k...)
	}
	for _, p := range s.ps {
		if p.v == nil {
			md.NullValues++
		}
	}
	return md
}
func (s *sliceReader) BasePath() string { return "slice" }

type sliceIt struct {
	sstables.SSTableIteratorI // nil, see sliceReader
	r                         *sliceReader
	pos, end                  int
}

func (it *sliceIt) Next() ([]byte, []byte, error) {
	if it.pos >= it.end {
		return nil, nil, sstables.Done
	}
	p := it.r.ps[it.pos]
	it.pos++
	return it.r.key(p.k), p.v, nil
}

type captureWriter struct {
	sstables.SSTableStreamWriterI // nil, see sliceReader
	out                           []pair
}

func (w *captureWriter) Open() error { return nil }
func (w *captureWriter) WriteNext(k, v []byte) error {
	var vc []byte
	if v != nil {
		vc = append([]byte{}, v...) // the merger may hand out buffers that are only valid until its next step
	}
	w.out = append(w.out, pair{append([]byte{}, k...), vc})
	return nil
}
func (w *captureWriter) Close() error { return nil }

type want struct {
	k        []byte
	v        []byte
	optional bool // newest value is empty-but-not-nil: the statement does not say whether scans show it
}

func Prop(c Case, x *h.Ctx) *h.Violation {
	// ---- reference: fold oldest -> newest ----
	type mv struct {
		v     []byte
		table int
	}
	model := map[string]mv{}
	tables := make([][]pair, len(c.Tables))
	shared, tombOverLive, liveOverTomb := false, false, false
	for ti, tb := range c.Tables {
		for _, kv := range tb {
			v := kv.V.Bytes()
			tables[ti] = append(tables[ti], pair{kv.K, v})
			if prev, ok := model[string(kv.K)]; ok {
				if !bytes.Equal(prev.v, v) || (prev.v == nil) != (v == nil) {
					shared = true
				}
				if prev.v != nil && v == nil {
					tombOverLive = true
				}
				if prev.v == nil && v != nil {
					liveOverTomb = true
				}
			}
			model[string(kv.K)] = mv{v, ti}
		}
	}
	var keys []string
	for k := range model {
		keys = append(keys, k)
	}
	sort.Strings(keys)
	hasEmptyKey := false
	if _, ok := model[""]; ok {
		hasEmptyKey = true
		x.Label("empty-key-present")
	}
	x.Label("level=" + c.Level)
	x.Label("kind=" + c.Kind)
	x.Labelf("tables=%d", len(c.Tables))

	skipEmpty := c.Kind == "compact-skip"
	expect := func(lo, hi []byte, useLo, useHi bool) []want {
		var ws []want
		for _, k := range keys {
			if useLo && bytes.Compare([]byte(k), lo) < 0 {
				continue
			}
			if useHi && bytes.Compare([]byte(k), hi) > 0 {
				continue
			}
			m := model[k]
			if m.v == nil {
				continue // newest is a tombstone: omitted
			}
			if len(m.v) == 0 {
				if skipEmpty {
					continue // the skip-tombstones reduction defines length 0 as tombstoned
				}
				ws = append(ws, want{[]byte(k), m.v, true})
				continue
			}
			ws = append(ws, want{[]byte(k), m.v, false})
		}
		return ws
	}
	compare := func(what string, got []pair, ws []want) *h.Violation {
		gi := 0
		var prev []byte
		for i, g := range got {
			if i > 0 && bytes.Compare(prev, g.k) >= 0 {
				return h.V("stack/"+what+"/order", "%s: key %x after %x (not strictly ascending / duplicate)", what, g.k, prev)
			}
			prev = g.k
		}
		for _, w := range ws {
			if gi < len(got) && bytes.Equal(got[gi].k, w.k) {
				if !bytes.Equal(got[gi].v, w.v) {
					return h.V("stack/"+what+"/value", "%s: key %x has value %.30x want %.30x (value of another key or an older table)", what, w.k, got[gi].v, w.v)
				}
				gi++
				continue
			}
			if w.optional {
				continue
			}
			return h.V("stack/"+what+"/missing", "%s: key %x (newest value %.30x) missing; got keys %s", what, w.k, w.v, showKeys(got))
		}
		if gi != len(got) {
			return h.V("stack/"+what+"/extra", "%s: unexpected key %x value %.30x in output", what, got[gi].k, got[gi].v)
		}
		return nil
	}

	// ---- build readers ----
	var readers []sstables.SSTableReaderI
	if c.Level == "disk" {
		dir, done := h.Scratch("c08")
		defer done()
		for ti, tb := range c.Tables {
			d := filepath.Join(dir, fmt.Sprintf("t%02d", ti))
			if err := mkdir(d); err != nil {
				panic(err)
			}
			if err := tbl.Write(d, tb, c.W); err != nil {
				return h.V("stack/write-err", "writing table %d: %v", ti, err)
			}
			r, err := tbl.Open(d, tbl.ROpts{Loader: c.Loaders[ti]})
			if err != nil {
				return h.V("stack/open-err", "opening table %d: %v", ti, err)
			}
			defer r.Close()
			readers = append(readers, r)
		}
	} else {
		for ti := range tables {
			readers = append(readers, &sliceReader{ps: tables[ti], nilKey: c.NilKey})
		}
	}
	drain := func(it sstables.SSTableIteratorI) ([]pair, error) {
		ps, err := tbl.Drain(it, len(keys)*len(c.Tables)+4)
		out := make([]pair, len(ps))
		for i, p := range ps {
			out[i] = pair{p.K, p.V}
		}
		return out, err
	}
	cmp := skiplist.BytesComparator{}

	switch c.Kind {
	case "super":
		if len(c.Nest) == 2 && 0 <= c.Nest[0] && c.Nest[0] < c.Nest[1] && c.Nest[1] <= len(readers) && noEmptyValues(c.Tables[c.Nest[0]:c.Nest[1]]) {
			x.Label("nested-stack")
			part := append([]sstables.SSTableReaderI{}, readers[c.Nest[0]:c.Nest[1]]...)
			inner := &truthfulMeta{SSTableReaderI: sstables.NewSuperSSTableReader(part, cmp), md: unionMeta(part)}
			nested := append([]sstables.SSTableReaderI{}, readers[:c.Nest[0]]...)
			nested = append(nested, inner)
			readers = append(nested, readers[c.Nest[1]:]...)
		}
		s := sstables.NewSuperSSTableReader(readers, cmp)
		probes := gen.Probes(bytesOf(keys))
		if len(probes) > 30 {
			probes = probes[:30]
		}
		for _, p := range probes {
			m, present := model[string(p)]
			ok, err := s.Contains(p)
			if err != nil || ok != present {
				return h.V("stack/contains", "Contains(%x)=(%v,%v) want %v", p, ok, err, present)
			}
			v, err := s.Get(p)
			if present {
				if err != nil || !bytes.Equal(v, m.v) || (v == nil) != (m.v == nil) && c.Level == "slice" {
					return h.V("stack/get", "Get(%x)=(%.30x,%v) want %.30x from table %d", p, v, err, m.v, m.table)
				}
				if m.v == nil && v != nil {
					return h.V("stack/get", "Get(%x) returned %x for a key whose newest entry is a tombstone", p, v)
				}
			} else if !errors.Is(err, sstables.NotFound) {
				return h.V("stack/get", "Get(%x) absent key: (%x,%v) want NotFound", p, v, err)
			}
		}
		it, err := s.Scan()
		if err != nil {
			return h.V("stack/scan/err", "Scan: %v", err)
		}
		got, err := drain(it)
		if err != nil {
			return h.V("stack/scan/err", "Scan iteration: %v", err)
		}
		if v := compare("scan", got, expect(nil, nil, false, false)); v != nil {
			return v
		}
		bounds := probes
		if len(bounds) > 9 {
			bounds = thin(bounds, 9)
		}
		for _, lo := range bounds {
			it, err := s.ScanStartingAt(lo)
			if err != nil {
				return h.V("stack/scan-starting-at/err", "ScanStartingAt(%x): %v", lo, err)
			}
			got, err := drain(it)
			if err != nil {
				return h.V("stack/scan-starting-at/err", "iteration: %v", err)
			}
			if v := compare("scan-starting-at", got, expect(lo, nil, true, false)); v != nil {
				v.Msg = fmt.Sprintf("from %x: %s", lo, v.Msg)
				return v
			}
			for _, hi := range bounds {
				it, err := s.ScanRange(lo, hi)
				if bytes.Compare(lo, hi) > 0 {
					if err == nil && len(readers) > 0 {
						return h.V("stack/range-inverted", "ScanRange(%x,%x) with lower > upper returned no error", lo, hi)
					}
					continue
				}
				if err != nil {
					return h.V("stack/scan-range/err", "ScanRange(%x,%x): %v", lo, hi, err)
				}
				got, err := drain(it)
				if err != nil {
					return h.V("stack/scan-range/err", "iteration: %v", err)
				}
				if v := compare("scan-range", got, expect(lo, hi, true, true)); v != nil {
					v.Msg = fmt.Sprintf("[%x,%x]: %s", lo, hi, v.Msg)
					return v
				}
			}
		}
	default:
		var its []sstables.SSTableMergeIteratorContext
		for i, r := range readers {
			it, err := r.Scan()
			if err != nil {
				return h.V("stack/scan/err", "Scan of input %d: %v", i, err)
			}
			its = append(its, sstables.NewMergeIteratorContext(i, it))
		}
		var got []pair
		var out sstables.SSTableStreamWriterI
		var outDir string
		cw := &captureWriter{}
		out = cw
		if c.Level == "disk" {
			d, done := h.Scratch("c08out")
			defer done()
			outDir = d
			w, err := sstables.NewSSTableStreamWriter(sstables.WriteBasePath(d), sstables.WithKeyComparator(cmp))
			if err != nil {
				panic(err)
			}
			if err := w.Open(); err != nil {
				panic(err)
			}
			out = w
		}
		var err error
		m := sstables.NewSSTableMerger(cmp)
		switch c.Kind {
		case "merge":
			err = m.Merge(its, out)
		case "compact-latest":
			err = m.MergeCompact(its, out, sstables.ScanReduceLatestWins)
		case "compact-skip":
			err = m.MergeCompact(its, out, sstables.ScanReduceLatestWinsSkipTombstones)
		}
		if err != nil {
			return h.V("stack/"+c.Kind+"/err", "%s returned %v", c.Kind, err)
		}
		if c.Level == "disk" {
			if err := out.Close(); err != nil {
				return h.V("stack/"+c.Kind+"/err", "closing merge output: %v", err)
			}
			r, err := tbl.Open(outDir, tbl.ROpts{})
			if err != nil {
				return h.V("stack/"+c.Kind+"/err", "opening merge output: %v", err)
			}
			defer r.Close()
			it, _ := r.Scan()
			got, err = drain(it)
			if err != nil {
				return h.V("stack/"+c.Kind+"/err", "scanning merge output: %v", err)
			}
		} else {
			got = cw.out
		}
		var ws []want
		if c.Kind == "merge" {
			// disjoint inputs: the output is the sorted union, tombstones included
			for _, k := range keys {
				ws = append(ws, want{[]byte(k), model[k].v, false})
			}
		} else {
			ws = expect(nil, nil, false, false)
		}
		if v := compare(c.Kind, got, ws); v != nil {
			return v
		}
	}
	_ = hasEmptyKey
	x.SetNonTrivial(len(c.Tables) >= 2 && shared && (tombOverLive || liveOverTomb))
	return nil
}

func showKeys(ps []pair) string {
	s := "["
	for i, p := range ps {
		if i > 0 {
			s += " "
		}
		s += fmt.Sprintf("%x", p.k)
	}
	return s + "]"
}

func bytesOf(ks []string) [][]byte {
	out := make([][]byte, len(ks))
	for i, k := range ks {
		out[i] = []byte(k)
	}
	return out
}

func thin(ps [][]byte, max int) [][]byte {
	step := (len(ps) + max - 1) / max
	var out [][]byte
	for i := 0; i < len(ps); i += step {
		out = append(out, ps[i])
	}
	return out
}

func noEmptyValues(ts [][]tbl.KV) bool {
	for _, t := range ts {
		for _, kv := range t {
			if len(kv.V.Bytes()) == 0 {
				return false
			}
		}
	}
	return true
}

// truthfulMeta gives the inner stack the metadata a table with the same content would have. The stacked reader's own
// MetaData() is a loose aggregate (its comment calls the usefulness debatable; its MinKey is not the minimum), and a
// reader that prunes tables by their key range - a legitimate optimisation for lists of tables, which is what the
// property quantifies over - must not be reported because of it.
type truthfulMeta struct {
	sstables.SSTableReaderI
	md *proto.MetaData
}

func (t *truthfulMeta) MetaData() *proto.MetaData { return t.md }

func unionMeta(rs []sstables.SSTableReaderI) *proto.MetaData {
	md := &proto.MetaData{Version: 1}
	for _, r := range rs {
		m := r.MetaData()
		if m == nil || m.NumRecords == 0 {
			continue
		}
		if md.NumRecords == 0 || bytes.Compare(m.MinKey, md.MinKey) < 0 {
			md.MinKey = m.MinKey
		}
		if md.NumRecords == 0 || bytes.Compare(m.MaxKey, md.MaxKey) > 0 {
			md.MaxKey = m.MaxKey
		}
		md.NumRecords += m.NumRecords
		md.DataBytes += m.DataBytes
		md.IndexBytes += m.IndexBytes
		md.TotalBytes += m.TotalBytes
		md.Version = m.Version
	}
	return md
}
