package c08

import "os"

func mkdir(d string) error { return os.MkdirAll(d, 0o755) }
