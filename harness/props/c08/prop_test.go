package c08

import (
	"testing"

	"verif/internal/h"
)

func TestProp(t *testing.T) {
	h.Run(t, h.Spec[Case]{ID: "C08", Gen: Gen(), Prop: Prop})
}
