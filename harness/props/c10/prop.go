// Package c10: recovery may be killed at any instant and repeated without changing the outcome.
package c10

import (
	"fmt"
	"os"
	"path/filepath"
	"sort"
	"strconv"
	"strings"
	"verif/internal/names"

	"pgregory.net/rapid"
	"verif/internal/crash"
	"verif/internal/fsmodel"
	"verif/internal/h"
	"verif/internal/prog"
	"verif/props/c02"
)

type Case struct {
	Program prog.Program `json:"program"`
	// Picks select which "recovery has work to do" images of the first run become starting images (index modulo the candidate count)
	Picks []int `json:"picks"`
	// Depth3 selects which nested images are crashed again (index modulo), at most a few
	Depth3 []int `json:"depth3,omitempty"`
	Ext4   bool  `json:"ext4,omitempty"` // run the nested recoveries on a disk file system (different directory listing order)
}

func Gen() *rapid.Generator[Case] {
	return rapid.Custom(func(t *rapid.T) Case {
		var c Case
		c.Program = c02.ProgramGen(rapid.IntRange(0, 3).Draw(t, "async") == 0).Draw(t, "program")
		for i := range c.Program.Sessions {
			c.Program.Sessions[i].NoClose = false
		}
		np := 4
		if h.Thorough() {
			np = 12
		}
		c.Picks = rapid.SliceOfN(rapid.IntRange(0, 10000), np, np).Draw(t, "picks")
		c.Depth3 = rapid.SliceOfN(rapid.IntRange(0, 10000), 1, 2).Draw(t, "depth3")
		c.Ext4 = rapid.IntRange(0, 2).Draw(t, "ext4") == 0
		return c
	})
}

func Shrink(c Case) []Case {
	var out []Case
	for _, p := range h.ShrinkList(c.Picks) {
		if len(p) > 0 {
			cp := c
			cp.Picks = p
			out = append(out, cp)
		}
	}
	for _, cc := range c02.Shrink(c02.Case{Program: c.Program}) {
		cp := c
		cp.Program = cc.Program
		out = append(out, cp)
	}
	return out
}

// hasRecoveryWork: the image holds WAL records, a compaction directory, or an incomplete table.
func hasRecoveryWork(fs *fsmodel.FS) (bool, string) {
	walRecs, walFiles, compaction := false, 0, false
	for _, l := range fs.Listing() {
		f := strings.Fields(l)
		switch {
		case names.IsCompactionDir(f[0]):
			compaction = true
		case names.IsWal(f[0]) && f[0] != names.WalDir && !strings.HasSuffix(f[0], "/") && len(f) == 2:
			walFiles++
			if f[1] != "8" && f[1] != "0" {
				walRecs = true
			}
		}
	}
	switch {
	case compaction && walRecs:
		return true, "compaction+wal"
	case compaction:
		return true, "compaction"
	case walRecs && walFiles >= 2:
		return true, "wal>=2files"
	case walRecs:
		return true, "wal"
	}
	return false, ""
}

func scratchExt4() string {
	for _, d := range []string{os.Getenv("VERIF_SCRATCH_DISK"), "/var/tmp"} {
		if d != "" {
			if st, err := os.Stat(d); err == nil && st.IsDir() {
				return d
			}
		}
	}
	return os.TempDir()
}

func copyTree(src, dst string) error {
	return filepath.Walk(src, func(p string, info os.FileInfo, err error) error {
		if err != nil {
			return err
		}
		rel, _ := filepath.Rel(src, p)
		if rel == "." {
			return nil
		}
		if info.IsDir() {
			return os.Mkdir(filepath.Join(dst, rel), 0o700)
		}
		b, err := os.ReadFile(p)
		if err != nil {
			return err
		}
		return os.WriteFile(filepath.Join(dst, rel), b, 0o644)
	})
}

type nester struct {
	c       Case
	x       *h.Ctx
	work    string
	keys    [][]byte
	viol    *h.Violation
	depth3  int
	recover prog.Program
}

// nest judges every boundary of a traced recovery of the image in imgDir: the next Open must succeed and give
// `want`, the state an uninterrupted recovery of the ORIGINAL starting image produces (computed here at depth 2).
func (n *nester) nest(imgDir string, depth int, origin string, want map[string][]byte) {
	if n.viol != nil {
		return
	}
	if want == nil {
		// R(I): what an uninterrupted recovery produces (on a private copy, recovery modifies the directory)
		ref, err := os.MkdirTemp(n.work, "ref-")
		if err != nil {
			panic(h.Infra{Msg: "harness file operation failed: " + err.Error()})
		}
		if err := copyTree(imgDir, ref); err != nil {
			panic(h.Infra{Msg: "harness file operation failed: " + err.Error()})
		}
		var oerr *crash.OpenError
		want, oerr = crash.ReadAll(ref, n.keys, false)
		os.RemoveAll(ref)
		if oerr != nil {
			n.x.Label("starting-image-does-not-recover(skipped; judged by C02/C13)")
			return
		}
	}
	base := n.work
	if n.c.Ext4 {
		base = scratchExt4()
	}
	run, err := os.MkdirTemp(base, "verif-c10-run-")
	if err != nil {
		panic(h.Infra{Msg: "harness file operation failed: " + err.Error()})
	}
	defer os.RemoveAll(run)
	tr, err := crash.Run(&n.recover, run, 1<<20, func(root string) error { return copyTree(imgDir, root) })
	if err != nil {
		n.x.Label("nested-trace-failed")
		return
	}
	if tr.Exit != 0 {
		n.viol = h.V("recovery/child-died", "%s: recovery of a recoverable image exited with status %d: %.800s", origin, tr.Exit, tr.Stderr)
		return
	}
	ops := n.recover.Ops()
	preload := func(fs *fsmodel.FS) error { return fs.LoadDir(imgDir) }
	judge := func(fs *fsmodel.FS, desc, fpTail string) {
		if n.viol != nil {
			return
		}
		d, err := crash.Materialize(fs, n.work)
		if err != nil {
			panic(h.Infra{Msg: "harness file operation failed: " + err.Error()})
		}
		defer os.RemoveAll(d)
		got, oerr := crash.ReadAll(d, n.keys, true)
		if oerr != nil {
			n.viol = h.V("recovery/"+oerr.Phase+"-failed/"+fpTail+"/"+oerr.Class(), "%s, then %s: the next Open failed in %s: %.500s\nimage: %s", origin, desc, oerr.Phase, oerr.Err, strings.Join(fs.Listing(), ", "))
			return
		}
		if df := crash.Diff(want, got); df != "" {
			n.viol = h.V("recovery/different-outcome/"+fpTail, "%s, then %s: the next Open gives a different state than the uninterrupted recovery (uninterrupted vs interrupted: %s)\nimage: %s", origin, desc, df, strings.Join(fs.Listing(), ", "))
		}
	}
	// pass 1: the sequence of tree-changing events, to find runs of sibling unlinks (one os.RemoveAll emptying a directory)
	type change struct{ op, path, dirfd string }
	var changes []change
	// listed: descriptors whose directory entries the process has read (getdents64) since they were opened - the
	// signature of os.RemoveAll, which unlinks the names it has just listed relative to the descriptor it listed
	listed := map[string]bool{}
	tr.OnEvent = func(_ fsmodel.Applied, ev fsmodel.Event, _ *crash.OpState) {
		if ev.Fail || ev.Unknown {
			return
		}
		switch ev.Name {
		case "getdents64":
			if len(ev.Args) > 0 && ev.Ret > 0 {
				listed[strings.TrimSpace(ev.Args[0])] = true
			}
		case "close":
			if len(ev.Args) > 0 {
				delete(listed, strings.TrimSpace(ev.Args[0]))
			}
		case "openat", "open", "creat", "dup", "dup2", "dup3":
			delete(listed, strconv.FormatInt(ev.Ret, 10))
		}
	}
	_, werr := tr.Walk(preload, tr.Root, -1, func(b *crash.Boundary, fs *fsmodel.FS) error {
		if b.Last.Changed {
			dirfd := ""
			if b.LastEv.Name == "unlinkat" && len(b.LastEv.Args) > 0 && listed[strings.TrimSpace(b.LastEv.Args[0])] {
				dirfd = strings.TrimSpace(b.LastEv.Args[0])
			}
			changes = append(changes, change{b.Last.Op, b.Last.Path, dirfd})
		}
		return nil
	})
	tr.OnEvent = nil
	if werr != nil {
		n.x.Label("nested-emulator-self-check-failed")
		return
	}
	runs := map[int][]string{} // index of the first change of a run -> entries
	for i := 0; i < len(changes); {
		// only unlinks that one os.RemoveAll issues relative to the directory descriptor it has listed can come in another
		// order; an os.Remove of a path (AT_FDCWD), or an unlink relative to a descriptor that was never listed (os.Root),
		// is ordered by the program
		if changes[i].op != "unlink" || changes[i].dirfd == "" || changes[i].dirfd == "AT_FDCWD" {
			i++
			continue
		}
		j := i
		for j < len(changes) && changes[j].op == "unlink" && changes[j].dirfd == changes[i].dirfd && filepath.Dir(changes[j].path) == filepath.Dir(changes[i].path) {
			j++
		}
		if j-i >= 2 && j-i <= 5 {
			var ents []string
			for k := i; k < j; k++ {
				ents = append(ents, changes[k].path)
			}
			runs[i] = ents
		}
		i = j
	}
	nChanges := 0
	doneRun := map[int]bool{}
	nestedSeen := 0
	d3 := map[int]bool{}
	_, _ = tr.Walk(preload, "", -1, func(b *crash.Boundary, fs *fsmodel.FS) error {
		if n.viol != nil {
			return nil
		}
		if b.Last.Changed {
			nChanges++
		}
		inOpen := len(b.Ops.InFlight()) > 0 && ops[b.Ops.InFlight()[0]].Kind == "open"
		if !inOpen {
			return nil
		}
		// other directory listing orders: the entries of one run may disappear in any order
		if ents, ok := runs[nChanges]; ok && !doneRun[nChanges] {
			doneRun[nChanges] = true
			for mask := 1; mask < (1<<len(ents))-1; mask++ {
				var sub []string
				for k := range ents {
					if mask&(1<<k) != 0 {
						sub = append(sub, ents[k])
					}
				}
				n.x.Sub(fmt.Sprintf("%s/d%d/run%d/m%d", origin, depth, nChanges, mask), true)
				n.x.Label("nested:unlink-order-permutation")
				_ = fs.WithoutEntries(sub, func() error {
					judge(fs, fmt.Sprintf("a kill inside Open while a directory was being emptied, with %v already removed (a possible listing order)", sub), "removal-order")
					return nil
				})
			}
		}
		if !b.Last.Changed {
			return nil
		}
		win := "other"
		switch {
		case names.IsCompactionDir(b.Last.Path) || b.Last.Op == "rename":
			win = "repair-compactions"
		case names.IsWal(b.Last.Path) && (b.Last.Op == "unlink" || b.Last.Op == "rmdir"):
			win = "wal-removal"
		case names.IsTable(b.Last.Path) && (b.Last.Op == "unlink" || b.Last.Op == "rmdir"):
			win = "table-removal"
		case names.IsTable(b.Last.Path):
			win = "replay-flush"
		case names.IsWal(b.Last.Path):
			win = "wal-setup"
		case b.Last.Path != "":
			win = "replay-flush" // a table being built under another name
		}
		n.x.Sub(fmt.Sprintf("%s/d%d/b%d", origin, depth, b.Seq), true)
		n.x.Labelf("nested-depth%d:%s", depth, win)
		judge(fs, fmt.Sprintf("a kill inside Open after system call #%d (%s %s)", b.Seq, b.Last.Op, b.Last.Path), win)
		// depth 3: crash the recovery of a sampled nested image again
		nestedSeen++
		if depth == 2 && n.viol == nil && n.depth3 < 2 {
			for _, pk := range n.c.Depth3 {
				if !d3[pk] && nestedSeen == 1+pk%12 {
					d3[pk] = true
					n.depth3++
					img, err := crash.Materialize(fs, n.work)
					if err != nil {
						panic(h.Infra{Msg: "harness file operation failed: " + err.Error()})
					}
					n.nest(img, 3, origin+fmt.Sprintf(", then a kill inside Open after its system call #%d (%s %s)", b.Seq, b.Last.Op, b.Last.Path), want)
					os.RemoveAll(img)
				}
			}
		}
		return nil
	})
}

func Prop(c Case, x *h.Ctx) *h.Violation {
	work, done := h.Scratch("c10")
	defer done()
	p := &c.Program
	tr, err := crash.Run(p, work, 1<<20, nil)
	if err != nil {
		x.Discard("trace-failed")
		return nil
	}
	if tr.Exit != 0 {
		return h.V("recovery/child-died", "the traced child exited with status %d on a valid workload: %.800s", tr.Exit, tr.Stderr)
	}
	// collect starting images in which recovery has work to do
	type cand struct {
		seq  int
		kind string
	}
	var cands []cand
	seen := map[[32]byte]bool{}
	_, werr := tr.Walk(nil, tr.Root, -1, func(b *crash.Boundary, fs *fsmodel.FS) error {
		if seen[b.Hash] {
			return nil
		}
		seen[b.Hash] = true
		if ok, kind := hasRecoveryWork(fs); ok {
			cands = append(cands, cand{b.Seq, kind})
		}
		return nil
	})
	if werr != nil {
		x.Discard("emulator-self-check")
		return nil
	}
	if len(cands) == 0 {
		x.Label("no-starting-image-with-recovery-work")
		return nil
	}
	// prefer variety: sort candidates by kind so that picks spread over kinds
	sort.SliceStable(cands, func(i, j int) bool { return cands[i].kind < cands[j].kind })
	chosen := map[int]string{}
	for _, pk := range c.Picks {
		cd := cands[pk%len(cands)]
		chosen[cd.seq] = cd.kind
	}
	n := &nester{c: c, x: x, work: work, keys: p.Keys, recover: prog.Program{Kind: "recover", Keys: p.Keys}}
	_, werr = tr.Walk(nil, "", -1, func(b *crash.Boundary, fs *fsmodel.FS) error {
		kind, ok := chosen[b.Seq]
		if !ok || n.viol != nil {
			return nil
		}
		delete(chosen, b.Seq)
		img, err := crash.Materialize(fs, work)
		if err != nil {
			panic(h.Infra{Msg: "harness file operation failed: " + err.Error()})
		}
		defer os.RemoveAll(img)
		x.Label("start:" + kind)
		n.nest(img, 2, fmt.Sprintf("kill after system call #%d of the workload (%s %s; %s)", b.Seq, b.Last.Op, b.Last.Path, kind), nil)
		return nil
	})
	if werr != nil {
		x.Discard("emulator-self-check")
		return nil
	}
	if c.Ext4 {
		x.Label("nested-on-disk-fs")
	} else {
		x.Label("nested-on-tmpfs")
	}
	return n.viol
}
