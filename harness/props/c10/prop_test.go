package c10

import (
	"testing"

	"verif/internal/h"
)

func TestProp(t *testing.T) {
	h.Run(t, h.Spec[Case]{ID: "C10", Gen: Gen(), Prop: Prop, MayDie: true, CountSubs: true, Shrink: Shrink})
}
