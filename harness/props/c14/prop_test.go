package c14

import (
	"testing"

	"verif/internal/h"
)

func TestProp(t *testing.T) {
	h.Run(t, h.Spec[Case]{ID: "C14", Gen: Gen(), Prop: Prop})
}
