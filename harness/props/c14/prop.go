// Package c14: the memstore behaves as a map with tombstones and flushes to an equal table.
package c14

import (
	"bytes"
	"errors"
	"fmt"
	"sort"

	"github.com/thomasjungblut/go-sstables/memstore"
	"github.com/thomasjungblut/go-sstables/sstables"
	"pgregory.net/rapid"
	"verif/internal/gen"
	"verif/internal/h"
)

type Op struct {
	Op  string   `json:"op"`            // add upsert delete deleteIfExists tombstone get contains isTombstoned size estimate iterate
	Key int      `json:"key"`           // index into Keys; -1 = nil key (add/upsert only)
	Val gen.Blob `json:"val,omitempty"` // add/upsert
}

type Case struct {
	Keys  [][]byte `json:"keys"`
	Ops   []Op     `json:"ops"`
	Flush string   `json:"flush"` // "flush" | "tombstones"
}

func Gen() *rapid.Generator[Case] {
	ops := []string{"add", "add", "upsert", "upsert", "delete", "delete", "deleteIfExists", "tombstone", "get", "contains", "isTombstoned", "size", "estimate", "iterate"}
	return rapid.Custom(func(t *rapid.T) Case {
		var c Case
		nk := rapid.IntRange(1, 10).Draw(t, "nkeys")
		ks := rapid.SliceOfN(gen.KeyGen(true, 1024), nk, nk).Draw(t, "keys")
		c.Keys = gen.SortedDistinct(ks)
		maxOps := 60
		if h.Thorough() {
			maxOps = 200
		}
		n := rapid.IntRange(0, maxOps).Draw(t, "nops")
		vg := gen.BlobGen(true, true, []int{16, 64}, 200)
		for i := 0; i < n; i++ {
			o := Op{Op: rapid.SampledFrom(ops).Draw(t, "op")}
			o.Key = rapid.IntRange(0, len(c.Keys)-1).Draw(t, "key")
			if o.Op == "add" || o.Op == "upsert" {
				if rapid.IntRange(0, 19).Draw(t, "nilkey") == 0 {
					o.Key = -1
				}
				o.Val = vg.Draw(t, "val")
			}
			c.Ops = append(c.Ops, o)
		}
		c.Flush = rapid.SampledFrom([]string{"flush", "tombstones"}).Draw(t, "flush")
		return c
	})
}

type ent struct {
	val  []byte
	tomb bool
}

func Prop(c Case, x *h.Ctx) *h.Violation {
	m := memstore.NewMemStore()
	model := map[string]*ent{}
	readded, delAbsent := false, false
	key := func(i int) []byte {
		if i < 0 {
			return nil
		}
		return c.Keys[i]
	}
	for i, o := range c.Ops {
		k := key(o.Key)
		e := model[string(k)]
		at := fmt.Sprintf("op %d %s(key#%d)", i, o.Op, o.Key)
		switch o.Op {
		case "add", "upsert":
			v := o.Val.Bytes()
			var err error
			if o.Op == "add" {
				err = m.Add(k, v)
			} else {
				err = m.Upsert(k, v)
			}
			switch {
			case k == nil || v == nil:
				okErr := (k == nil && errors.Is(err, memstore.KeyNil)) || (v == nil && errors.Is(err, memstore.ValueNil))
				if !okErr {
					return h.V("memstore/nil-not-rejected", "%s with nil key=%v nil value=%v returned %v", at, k == nil, v == nil, err)
				}
			case o.Op == "add" && e != nil && !e.tomb:
				if !errors.Is(err, memstore.KeyAlreadyExists) {
					return h.V("memstore/add-existing", "%s on live key returned %v want KeyAlreadyExists", at, err)
				}
			default:
				if err != nil {
					return h.V("memstore/write-err", "%s returned %v", at, err)
				}
				if e != nil && e.tomb {
					readded = true
				}
				model[string(k)] = &ent{val: v}
			}
		case "delete":
			err := m.Delete(k)
			if e == nil {
				delAbsent = true
				if !errors.Is(err, memstore.KeyNotFound) {
					return h.V("memstore/delete-absent", "%s on absent key returned %v want KeyNotFound", at, err)
				}
			} else {
				if err != nil {
					return h.V("memstore/delete-err", "%s returned %v", at, err)
				}
				model[string(k)] = &ent{tomb: true}
			}
		case "deleteIfExists":
			if err := m.DeleteIfExists(k); err != nil {
				return h.V("memstore/delete-err", "%s returned %v", at, err)
			}
			if e != nil {
				model[string(k)] = &ent{tomb: true}
			} else {
				delAbsent = true
			}
		case "tombstone":
			if err := m.Tombstone(k); err != nil {
				return h.V("memstore/tombstone-err", "%s returned %v", at, err)
			}
			model[string(k)] = &ent{tomb: true}
		case "get":
			v, err := m.Get(k)
			switch {
			case e == nil:
				if !errors.Is(err, memstore.KeyNotFound) {
					return h.V("memstore/get", "%s absent key: (%x,%v) want KeyNotFound", at, v, err)
				}
			case e.tomb:
				if !errors.Is(err, memstore.KeyTombstoned) {
					return h.V("memstore/get", "%s tombstoned key: (%x,%v) want KeyTombstoned", at, v, err)
				}
			default:
				if err != nil || !bytes.Equal(v, e.val) || v == nil {
					return h.V("memstore/get", "%s: (%x,%v) want (%x,nil)", at, v, err, e.val)
				}
			}
		case "contains":
			want := e != nil && !e.tomb
			if got := m.Contains(k); got != want {
				return h.V("memstore/contains", "%s = %v want %v", at, got, want)
			}
		case "isTombstoned":
			want := e != nil && e.tomb
			if got := m.IsTombstoned(k); got != want {
				return h.V("memstore/isTombstoned", "%s = %v want %v", at, got, want)
			}
		case "size":
			if got := m.Size(); got != len(model) {
				return h.V("memstore/size", "%s = %d want %d", at, got, len(model))
			}
		case "estimate":
			if v := checkEstimate(m, model, at); v != nil {
				return v
			}
		case "iterate":
			if v := checkIter(m, model, at); v != nil {
				return v
			}
		}
	}
	if v := checkEstimate(m, model, "end"); v != nil {
		return v
	}
	if v := checkIter(m, model, "end"); v != nil {
		return v
	}
	if m.Size() != len(model) {
		return h.V("memstore/size", "final Size = %d want %d", m.Size(), len(model))
	}

	dir, done := h.Scratch("c14")
	defer done()
	var err error
	if c.Flush == "flush" {
		err = m.Flush(sstables.WriteBasePath(dir))
	} else {
		err = m.FlushWithTombstones(sstables.WriteBasePath(dir))
	}
	if err != nil {
		return h.V("memstore/flush-err", "%s returned %v", c.Flush, err)
	}
	r, err := sstables.NewSSTableReader(sstables.ReadBasePath(dir))
	if err != nil {
		return h.V("memstore/flush-unreadable", "reader on flushed table: %v", err)
	}
	defer r.Close()
	it, err := r.Scan()
	if err != nil {
		return h.V("memstore/flush-unreadable", "scan on flushed table: %v", err)
	}
	var want []string
	for k, e := range model {
		if c.Flush == "tombstones" || !e.tomb {
			want = append(want, k)
		}
	}
	sort.Strings(want)
	for i := 0; ; i++ {
		k, v, err := it.Next()
		if errors.Is(err, sstables.Done) {
			if i != len(want) {
				return h.V("memstore/flush-content", "flushed table has %d records want %d", i, len(want))
			}
			break
		}
		if err != nil {
			return h.V("memstore/flush-unreadable", "scan step %d: %v", i, err)
		}
		if i >= len(want) {
			return h.V("memstore/flush-content", "flushed table has extra key %x", k)
		}
		e := model[want[i]]
		if string(k) != want[i] {
			return h.V("memstore/flush-content", "record %d key %x want %x", i, k, want[i])
		}
		if e.tomb {
			if v != nil {
				return h.V("memstore/flush-content", "tombstone of %x flushed as %x (want nil)", k, v)
			}
		} else if v == nil || !bytes.Equal(v, e.val) {
			return h.V("memstore/flush-content", "key %x flushed as %x nil=%v want %x", k, v, v == nil, e.val)
		}
	}
	x.Label("flush=" + c.Flush)
	if readded {
		x.Label("tombstoned-key-re-added")
	}
	if delAbsent {
		x.Label("delete-of-absent-key")
	}
	x.SetNonTrivial(readded && delAbsent)
	return nil
}

func checkEstimate(m memstore.MemStoreI, model map[string]*ent, at string) *h.Violation {
	var live uint64
	for k, e := range model {
		live += uint64(len(k)) + uint64(len(e.val))
	}
	est := m.EstimatedSizeInBytes()
	// the estimate is "rough": demand only that it did not wrap below zero and stays within a
	// generous linear bound of the bytes actually held.
	if est > 2*live+64 {
		return h.V("memstore/estimate", "%s: EstimatedSizeInBytes=%d with %d live bytes (wrapped or unbounded)", at, est, live)
	}
	return nil
}

func checkIter(m memstore.MemStoreI, model map[string]*ent, at string) *h.Violation {
	var want []string
	for k := range model {
		want = append(want, k)
	}
	sort.Strings(want)
	it := m.SStableIterator()
	for i := 0; ; i++ {
		k, v, err := it.Next()
		if errors.Is(err, sstables.Done) {
			if i != len(want) {
				return h.V("memstore/iterate", "%s: iterator ended after %d of %d", at, i, len(want))
			}
			return nil
		}
		if err != nil {
			return h.V("memstore/iterate", "%s: iterator error %v", at, err)
		}
		if i >= len(want) || string(k) != want[i] {
			return h.V("memstore/iterate", "%s: entry %d key %x unexpected", at, i, k)
		}
		e := model[want[i]]
		if e.tomb != (v == nil) || (!e.tomb && !bytes.Equal(v, e.val)) {
			return h.V("memstore/iterate", "%s: key %x value %x nil=%v want tomb=%v %x", at, k, v, v == nil, e.tomb, e.val)
		}
	}
}
