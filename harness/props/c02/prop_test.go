package c02

import (
	"testing"

	"verif/internal/h"
)

func TestProp(t *testing.T) {
	h.Run(t, h.Spec[Case]{ID: "C02", Gen: Gen(), Prop: Prop, MayDie: true, CountSubs: true, Shrink: Shrink})
}
