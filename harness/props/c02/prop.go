// Package c02: acknowledged writes survive a process kill at any instant (synchronous WAL).
package c02

import (
	"fmt"
	"os"
	"strings"

	"pgregory.net/rapid"
	"verif/internal/crash"
	"verif/internal/fsmodel"
	"verif/internal/h"
	"verif/internal/prog"
	"verif/internal/sdb"
)

type Case struct {
	Program prog.Program `json:"program"`
	// replay: judge a saved trace instead of running the child again
	TraceFile string `json:"trace_file,omitempty"`
	TraceRoot string `json:"trace_root,omitempty"`
	TraceAck  string `json:"trace_ack,omitempty"`
	Only      int    `json:"only,omitempty"` // >0: judge only the boundary with this sequence number
	// Disk: run the traced child on the disk file system instead of tmpfs (other directory listing order, real fsync)
	Disk bool `json:"disk,omitempty"`
}

func ProgramGen(async bool) *rapid.Generator[prog.Program] {
	return rapid.Custom(func(t *rapid.T) prog.Program {
		p := prog.Program{Kind: "db"}
		keys := sdb.Universe().Draw(t, "keys")
		if len(keys) > 8 {
			keys = keys[:8]
		}
		p.Keys = keys
		// cold keys: each is written by exactly one put of the whole program, so every memstore / table / log file that
		// received one holds something no other file shadows - losing or misplacing a whole table shows up even when the
		// hot keys are rewritten all the time
		cold := 0
		ns := rapid.IntRange(1, 2).Draw(t, "sessions")
		for s := 0; s < ns; s++ {
			free := rapid.IntRange(0, 3).Draw(t, "free") == 0
			se := prog.Session{Wait: !free}
			se.Opts = sdb.Opts{
				MemLimit:  rapid.SampledFrom([]uint64{64, 128, 256, 512}).Draw(t, "memlimit"),
				Threshold: rapid.IntRange(0, 2).Draw(t, "threshold"),
				MaxSize:   rapid.SampledFrom([]uint64{300, 1000, 1 << 40}).Draw(t, "maxsize"),
				Ratio:     rapid.SampledFrom([]float32{0, 0.2, 1}).Draw(t, "ratio"),
				WBuf:      rapid.SampledFrom([]uint64{16, 64, 4 << 20}).Draw(t, "wbuf"),
				RBuf:      rapid.SampledFrom([]uint64{64, 4096}).Draw(t, "rbuf"),
				Ticker:    free,
				Async:     async,
			}
			n := rapid.IntRange(6, 30).Draw(t, "nsteps")
			for i := 0; i < n; i++ {
				st := prog.Step{Key: rapid.IntRange(0, len(keys)-1).Draw(t, "key")}
				switch k := rapid.IntRange(0, 11).Draw(t, "opkind"); {
				case k < 7:
					st.Op = "put"
					st.VLen = rapid.SampledFrom([]int{4, 20, 60, 150}).Draw(t, "vlen")
					if cold < 12 && rapid.IntRange(0, 3).Draw(t, "cold") == 0 {
						p.Keys = append(p.Keys, []byte{0xc0, 'c', byte(cold)})
						st.Key = len(p.Keys) - 1
						cold++
					}
				case k < 10:
					st.Op = "delete"
				case k == 10 && !free:
					st.Op = "compact"
				default:
					st.Op = "rotate"
				}
				se.Steps = append(se.Steps, st)
			}
			// an unclean end: the handle is abandoned at a quiescent point (no Close), so that the next session's Open has real
			// recovery work to do inside the traced window. Only sound in deterministic mode, where no goroutine of the
			// abandoned handle touches the directory any more.
			se.NoClose = !free && rapid.IntRange(0, 2).Draw(t, "noclose") == 0
			p.Sessions = append(p.Sessions, se)
		}
		return p
	})
}

func Gen() *rapid.Generator[Case] {
	return rapid.Custom(func(t *rapid.T) Case {
		return Case{Program: ProgramGen(false).Draw(t, "program"), Disk: rapid.IntRange(0, 3).Draw(t, "disk") == 0}
	})
}

func Shrink(c Case) []Case {
	if c.TraceFile != "" {
		return nil
	}
	var out []Case
	if len(c.Program.Sessions) > 1 {
		for si := range c.Program.Sessions {
			cp := c
			cp.Program.Sessions = append(append([]prog.Session{}, c.Program.Sessions[:si]...), c.Program.Sessions[si+1:]...)
			out = append(out, cp)
		}
	}
	for si := range c.Program.Sessions {
		for _, st := range h.ShrinkList(c.Program.Sessions[si].Steps) {
			cp := c
			cp.Program.Sessions = append([]prog.Session{}, c.Program.Sessions...)
			cp.Program.Sessions[si].Steps = st
			out = append(out, cp)
		}
	}
	return out
}

// Judge is the C02 oracle for one boundary.
func Judge(p *prog.Program, ops []prog.Op, b *crash.Boundary, fs *fsmodel.FS, work string, active bool) (fp, msg string) {
	if !active {
		return "", ""
	}
	dir, err := crash.Materialize(fs, work)
	if err != nil {
		panic(h.Infra{Msg: "harness file operation failed: " + err.Error()})
	}
	defer os.RemoveAll(dir)
	got, oerr := crash.ReadAll(dir, p.Keys, true)
	win := crash.Window(b, ops)
	if oerr != nil {
		return fmt.Sprintf("crash/%s-failed/%s/%s", oerr.Phase, win, oerr.Class()),
			fmt.Sprintf("recovery of the image after system call #%d (%s %s; window %s) failed in %s: %.600s\nimage: %s", b.Seq, b.Last.Op, b.Last.Path, win, oerr.Phase, oerr.Err, strings.Join(fs.Listing(), ", "))
	}
	var acked []int
	for i := range ops {
		if b.Ops.Returned[i] && b.Ops.Result[i] == "ok" {
			acked = append(acked, i)
		}
	}
	want := crash.ModelAfter(p, ops, acked)
	d := crash.Diff(want, got)
	if d == "" {
		return "", ""
	}
	// operations in flight at the kill may each be present or absent
	fl := b.Ops.InFlight()
	for _, i := range fl {
		with := append(append([]int{}, acked...), i)
		// keep program order
		for j := len(with) - 1; j > 0 && with[j] < with[j-1]; j-- {
			with[j], with[j-1] = with[j-1], with[j]
		}
		if crash.Diff(crash.ModelAfter(p, ops, with), got) == "" {
			return "", ""
		}
	}
	kind := "lost-or-stale"
	if strings.Contains(d, "vs not found") {
		kind = "acknowledged-write-lost"
	} else if strings.HasPrefix(d[strings.Index(d, ":")+2:], "not found vs") {
		kind = "deleted-key-back"
	}
	return fmt.Sprintf("crash/content/%s/%s", win, kind),
		fmt.Sprintf("image after system call #%d (%s %s; window %s), %d operations acknowledged, in flight %v: expected vs recovered: %s\nimage: %s",
			b.Seq, b.Last.Op, b.Last.Path, win, len(acked), fl, d, strings.Join(fs.Listing(), ", "))
}

// Execute runs (or loads) the trace of c and judges every boundary with judge.
func Execute(id string, c Case, x *h.Ctx, judge func(p *prog.Program, ops []prog.Op, b *crash.Boundary, fs *fsmodel.FS, work string, active bool) (string, string)) *h.Violation {
	return ExecuteOpts(id, c, x, judge, 1<<20)
}

// ExecuteOpts is Execute with an explicit strace string limit (C13 logs records of hundreds of KiB).
func ExecuteOpts(id string, c Case, x *h.Ctx, judge func(p *prog.Program, ops []prog.Op, b *crash.Boundary, fs *fsmodel.FS, work string, active bool) (string, string), maxStr int) *h.Violation {
	work, done := h.Scratch(strings.ToLower(id))
	defer done()
	p := &c.Program
	ops := p.Ops()
	var tr *crash.Trace
	var err error
	selfCheck := ""
	if c.TraceFile != "" {
		tr, err = crash.Load(p, c.TraceFile, c.TraceRoot, c.TraceAck)
		if err != nil {
			panic(fmt.Sprintf("cannot load trace %s: %v", c.TraceFile, err))
		}
	} else {
		runDir := work
		if c.Disk {
			for _, d := range []string{os.Getenv("VERIF_SCRATCH_DISK"), "/var/tmp"} {
				if st, e := os.Stat(d); d != "" && e == nil && st.IsDir() {
					if rd, e := os.MkdirTemp(d, "verif-crash-run-"); e == nil {
						runDir = rd
						defer os.RemoveAll(rd)
						x.Label("child-on-disk-fs")
					}
					break
				}
			}
		}
		tr, err = crash.Run(p, runDir, maxStr, nil)
		if err != nil {
			x.Discard("trace-failed: " + firstLine(err.Error()))
			return nil
		}
		selfCheck = tr.Root
		if tr.Exit != 0 {
			return h.V("crash/child-died", "the traced child exited with status %d on a valid workload: %.1500s", tr.Exit, tr.Stderr)
		}
	}
	var viol *h.Violation
	windows := map[string]int{}
	n, werr := tr.Walk(nil, selfCheck, -1, func(b *crash.Boundary, fs *fsmodel.FS) error {
		active := viol == nil && (c.Only <= 0 || b.Seq == c.Only)
		if active {
			win := crash.Window(b, ops)
			nt := win != "between-ops" && win != "wal-append"
			x.Sub(fmt.Sprintf("b%d", b.Seq), nt)
			windows[win]++
		}
		if fp, msg := judge(p, ops, b, fs, work, active); fp != "" && active {
			viol = &h.Violation{Fingerprint: fp, Msg: msg}
			if c.TraceFile == "" {
				saved := crash.SaveTrace(id, tr)
				rc := c
				rc.TraceFile, rc.TraceRoot, rc.TraceAck, rc.Only = saved, tr.Root, tr.Ack, b.Seq
				viol.ReplayCase = rc
			}
		}
		return nil
	})
	if werr != nil {
		// the emulator could not vouch for this trace (self-check failed, unknown call): nothing about it is believed
		if c.TraceFile != "" {
			panic(werr)
		}
		if d := os.Getenv("VERIF_DEBUG_DIR"); d != "" {
			_ = os.MkdirAll(d, 0o755)
			b, _ := os.ReadFile(tr.LogPath)
			_ = os.WriteFile(d+"/trace.log", b, 0o644)
			_ = os.WriteFile(d+"/info.txt", []byte(tr.Root+"\n"+tr.Ack+"\n"+werr.Error()+"\n"), 0o644)
		}
		x.Discard("emulator-self-check: " + firstLine(werr.Error()))
		return nil
	}
	if viol != nil {
		return viol
	}
	for w, k := range windows {
		for i := 0; i < k; i++ {
			x.Label("win:" + w)
		}
	}
	_ = n
	return nil
}

func Prop(c Case, x *h.Ctx) *h.Violation {
	return Execute("C02", c, x, Judge)
}

func firstLine(s string) string {
	if i := strings.IndexByte(s, '\n'); i >= 0 {
		s = s[:i]
	}
	if len(s) > 160 {
		s = s[:160]
	}
	return s
}
