package c05

import (
	"testing"

	"verif/internal/h"
)

func TestProp(t *testing.T) {
	h.Run(t, h.Spec[Case]{ID: "C05", Gen: Gen(), Prop: Prop, MayDie: true, Shrink: Shrink})
}
