// Package c05: concurrent Get/Put/Delete are linearizable while flushes and compactions run.
package c05

import (
	"errors"
	"fmt"
	"runtime"
	"strings"
	"sync"
	"sync/atomic"
	"time"

	"github.com/anishathalye/porcupine"
	"github.com/thomasjungblut/go-sstables/simpledb"
	"github.com/thomasjungblut/go-sstables/sstables"
	"pgregory.net/rapid"
	"verif/internal/h"
	"verif/internal/sdb"
)

type COp struct {
	Op    string `json:"op"` // get put delete
	Key   int    `json:"key"`
	Yield bool   `json:"yield,omitempty"` // runtime.Gosched() before the call
}

type Chaos struct {
	Op string `json:"op"` // rotate | compact | park-flush | park-compact | release | wait
	N  int    `json:"n,omitempty"`
}

type Case struct {
	Hot          int     `json:"hot"`  // keys 0..Hot-1 are rewritten by the clients
	Cold         int     `json:"cold"` // keys Hot..Hot+Cold-1 are written once before the concurrent phase and then only read
	MemLimit     uint64  `json:"mem_limit"`
	Ticker       bool    `json:"ticker,omitempty"`
	Thresh       int     `json:"threshold"`
	Procs        int     `json:"procs"`
	Clients      [][]COp `json:"clients"`
	Chaos        []Chaos `json:"chaos"`
	DisjointKeys bool    `json:"disjoint_keys,omitempty"` // C18: each client owns its keys (results must equal its own sequential model)
}

func Gen() *rapid.Generator[Case] {
	return rapid.Custom(func(t *rapid.T) Case {
		var c Case
		c.Hot = rapid.IntRange(1, 4).Draw(t, "hot")
		c.Cold = rapid.IntRange(1, 3).Draw(t, "cold")
		c.MemLimit = rapid.SampledFrom([]uint64{64, 128, 256, 512}).Draw(t, "memlimit")
		c.Ticker = rapid.IntRange(0, 2).Draw(t, "ticker") == 0
		c.Thresh = rapid.IntRange(0, 2).Draw(t, "threshold")
		c.Procs = rapid.SampledFrom([]int{1, 2, 4, 16}).Draw(t, "procs")
		nc := rapid.IntRange(2, 6).Draw(t, "clients")
		maxOps := 60
		if h.Thorough() {
			maxOps = 120
		}
		// "reader storm": most operations read keys that live only in tables while rotate+compact cycles replace those tables
		scenario := rapid.IntRange(0, 5).Draw(t, "scenario")
		storm := scenario == 0
		// "install window": read-heavy clients on keys whose newest value sits in the memstore that is being flushed, while
		// the flusher is repeatedly parked and released (each release is followed by the installation of a table)
		install := scenario == 1 || scenario == 2
		for i := 0; i < nc; i++ {
			n := rapid.IntRange(10, maxOps).Draw(t, "nops")
			if storm {
				n = maxOps * 2
			}
			if install {
				n = maxOps * 3
			}
			var ops []COp
			for j := 0; j < n; j++ {
				o := COp{Yield: rapid.IntRange(0, 4).Draw(t, "yield") == 0}
				k := rapid.IntRange(0, 9).Draw(t, "opkind")
				if storm && i > 0 && k < 7 {
					k = 9
				}
				if install && k < 5 && rapid.IntRange(0, 3).Draw(t, "mostlyreads") > 0 {
					k = 5 // turn three quarters of the writes into reads of hot keys
				}
				switch {
				case k < 4:
					o.Op, o.Key = "put", rapid.IntRange(0, c.Hot-1).Draw(t, "key")
				case k < 5:
					o.Op, o.Key = "delete", rapid.IntRange(0, c.Hot-1).Draw(t, "key")
				case k < 7:
					o.Op, o.Key = "get", rapid.IntRange(0, c.Hot-1).Draw(t, "key")
				default:
					o.Op, o.Key = "get", c.Hot+rapid.IntRange(0, c.Cold-1).Draw(t, "coldkey")
				}
				ops = append(ops, o)
			}
			c.Clients = append(c.Clients, ops)
		}
		// chaos script: free actions or a gated scenario
		if rapid.Bool().Draw(t, "gated") {
			gate := rapid.SampledFrom([]string{"park-flush", "park-flush", "park-compact"}).Draw(t, "gate")
			c.Chaos = append(c.Chaos, Chaos{Op: "wait", N: rapid.IntRange(0, 10).Draw(t, "w0")})
			c.Chaos = append(c.Chaos, Chaos{Op: gate})
			if gate == "park-compact" {
				c.Chaos = append(c.Chaos, Chaos{Op: "rotate"}, Chaos{Op: "compact"})
			} else {
				c.Chaos = append(c.Chaos, Chaos{Op: "rotate"})
				if rapid.Bool().Draw(t, "double") {
					c.Chaos = append(c.Chaos, Chaos{Op: "rotate"})
				}
			}
			c.Chaos = append(c.Chaos, Chaos{Op: "wait", N: rapid.IntRange(5, 60).Draw(t, "w1")}, Chaos{Op: "release"})
		}
		nf := rapid.IntRange(1, 10).Draw(t, "nchaos")
		if install {
			c.Chaos = nil
			for i := 0; i < 10; i++ {
				c.Chaos = append(c.Chaos, Chaos{Op: "park-flush"}, Chaos{Op: "rotate"}, Chaos{Op: "wait", N: rapid.IntRange(4, 20).Draw(t, "iw1")},
					Chaos{Op: "release"}, Chaos{Op: "wait", N: rapid.IntRange(4, 20).Draw(t, "iw2")})
			}
		}
		if storm {
			c.Ticker = false
			c.Thresh = 0
			for i := 0; i < 12; i++ {
				c.Chaos = append(c.Chaos, Chaos{Op: "wait", N: rapid.IntRange(3, 12).Draw(t, "sw")}, Chaos{Op: "rotate"}, Chaos{Op: "wait", N: 2}, Chaos{Op: "compact"})
			}
		}
		for i := 0; i < nf; i++ {
			c.Chaos = append(c.Chaos, Chaos{Op: "wait", N: rapid.IntRange(1, 25).Draw(t, "w")})
			c.Chaos = append(c.Chaos, Chaos{Op: rapid.SampledFrom([]string{"rotate", "rotate", "compact"}).Draw(t, "act")})
		}
		return c
	})
}

func Shrink(c Case) []Case {
	var out []Case
	for _, cl := range h.ShrinkList(c.Clients) {
		if len(cl) >= 1 {
			cp := c
			cp.Clients = cl
			out = append(out, cp)
		}
	}
	for i := range c.Clients {
		for _, ops := range h.ShrinkList(c.Clients[i]) {
			cp := c
			cp.Clients = append([][]COp{}, c.Clients...)
			cp.Clients[i] = ops
			out = append(out, cp)
		}
	}
	for _, ch := range h.ShrinkList(c.Chaos) {
		cp := c
		cp.Chaos = ch
		out = append(out, cp)
	}
	return out
}

type input struct {
	op  string
	key int
	val string
}

type output struct {
	val   string
	found bool
}

var model = porcupine.Model{
	Partition: func(history []porcupine.Operation) [][]porcupine.Operation {
		m := map[int][]porcupine.Operation{}
		for _, o := range history {
			k := o.Input.(input).key
			m[k] = append(m[k], o)
		}
		var out [][]porcupine.Operation
		for _, v := range m {
			out = append(out, v)
		}
		return out
	},
	Init: func() interface{} { return "" },
	Step: func(state, in, out interface{}) (bool, interface{}) {
		st := state.(string)
		i := in.(input)
		o := out.(output)
		switch i.op {
		case "put":
			return true, i.val
		case "delete":
			return true, ""
		default:
			if st == "" {
				return !o.found, st
			}
			return o.found && o.val == st, st
		}
	},
	DescribeOperation: func(in, out interface{}) string {
		i := in.(input)
		o := out.(output)
		switch i.op {
		case "put":
			return fmt.Sprintf("put(k%d,%s)", i.key, i.val)
		case "delete":
			return fmt.Sprintf("delete(k%d)", i.key)
		}
		if o.found {
			return fmt.Sprintf("get(k%d)->%s", i.key, o.val)
		}
		return fmt.Sprintf("get(k%d)->notfound", i.key)
	},
}

// gate parks the flusher or the compactor inside the creation of its table.
type gate struct {
	mu                   sync.Mutex
	dir                  string
	park                 string // "", "flush", "compact"
	release              chan struct{}
	parked               int32
	flushes, compactions int32
}

func (g *gate) hook(w *sstables.SSTableStreamWriter) {
	p := w.VerifBasePath()
	g.mu.Lock()
	if !strings.HasPrefix(p, g.dir) {
		g.mu.Unlock()
		return
	}
	isCompaction := strings.Contains(p, simpledb.SSTableCompactionPathPrefix)
	if isCompaction {
		atomic.AddInt32(&g.compactions, 1)
	} else {
		atomic.AddInt32(&g.flushes, 1)
	}
	var ch chan struct{}
	if (g.park == "flush" && !isCompaction) || (g.park == "compact" && isCompaction) {
		ch = g.release
	}
	g.mu.Unlock()
	if ch != nil {
		atomic.AddInt32(&g.parked, 1)
		<-ch
	}
}

func keyName(i int) []byte { return []byte(fmt.Sprintf("key-%02d", i)) }

type Result struct {
	History   []porcupine.Operation
	Flushes   int32
	Compacts  int32
	Parked    int32
	Overlap   bool
	PerClient [][]string // textual results per client, for the C18 sequential oracle
}

// Run executes the case and returns the recorded history, or a violation for an operation error.
func Run(c Case, dir string) (*Result, *h.Violation) {
	prev := runtime.GOMAXPROCS(c.Procs)
	defer runtime.GOMAXPROCS(prev)
	g := &gate{dir: dir}
	sstables.VerifSetWriterOpenHook(g.hook)
	defer sstables.VerifSetWriterOpenHook(nil)
	// the gate can be armed and released repeatedly: arming creates a fresh channel, releasing closes it
	releaseGate := func() {
		g.mu.Lock()
		g.park = ""
		if g.release != nil {
			close(g.release)
			g.release = nil
		}
		g.mu.Unlock()
	}
	armGate := func(what string) {
		g.mu.Lock()
		if g.release == nil {
			g.release = make(chan struct{})
		}
		g.park = what
		g.mu.Unlock()
	}
	defer releaseGate()

	opts := sdb.Opts{MemLimit: c.MemLimit, Ticker: c.Ticker, Threshold: c.Thresh, MaxSize: 1 << 40, Ratio: 0.2, WBuf: 4096, RBuf: 4096}
	db, err := sdb.Open(dir, opts)
	if err != nil {
		return nil, h.V("conc/open-error", "%v", err)
	}
	var stamp int64
	var mu sync.Mutex
	var hist []porcupine.Operation
	var firstErr atomic.Value
	var completed int64
	record := func(client int, in input, out output, call, ret int64) {
		mu.Lock()
		hist = append(hist, porcupine.Operation{ClientId: client, Input: in, Call: call, Output: out, Return: ret})
		mu.Unlock()
	}
	do := func(client int, in input) output {
		call := atomic.AddInt64(&stamp, 1)
		var out output
		var err error
		k := keyName(in.key)
		switch in.op {
		case "put":
			err = db.PutBytes(k, []byte(in.val))
		case "delete":
			err = db.DeleteBytes(k)
		default:
			var v []byte
			v, err = db.GetBytes(k)
			if errors.Is(err, simpledb.ErrNotFound) {
				err = nil
			} else if err == nil {
				out = output{string(v), true}
			}
		}
		ret := atomic.AddInt64(&stamp, 1)
		if err != nil {
			firstErr.CompareAndSwap(nil, fmt.Sprintf("client %d %s(k%d): %v", client, in.op, in.key, err))
		}
		record(client, in, out, call, ret)
		atomic.AddInt64(&completed, 1)
		return out
	}
	// setup (sequential, client id = number of clients): cold keys and an initial value for every hot key
	setupClient := len(c.Clients)
	for i := 0; i < c.Hot+c.Cold; i++ {
		do(setupClient, input{"put", i, fmt.Sprintf("init-%d", i)})
	}
	res := &Result{PerClient: make([][]string, len(c.Clients))}
	var wg sync.WaitGroup
	for ci, ops := range c.Clients {
		wg.Add(1)
		go func(ci int, ops []COp) {
			defer wg.Done()
			for j, o := range ops {
				if o.Yield {
					runtime.Gosched()
				}
				key := o.Key
				if c.DisjointKeys && key < c.Hot {
					key = c.Hot + c.Cold + ci*8 + o.Key // a private key range per client
				}
				in := input{o.Op, key, ""}
				if o.Op == "put" {
					in.val = fmt.Sprintf("c%d-%d", ci, j)
				}
				out := do(ci, in)
				res.PerClient[ci] = append(res.PerClient[ci], fmt.Sprintf("%v/%s", out.found, out.val))
			}
		}(ci, ops)
	}
	// chaos goroutine
	var bg sync.WaitGroup
	var compactMu sync.Mutex
	chaosDone := make(chan struct{})
	go func() {
		defer close(chaosDone)
		for _, ch := range c.Chaos {
			switch ch.Op {
			case "wait":
				// a schedule device, never a verdict: wait until N more client operations completed, or nothing moves
				target := atomic.LoadInt64(&completed) + int64(ch.N)
				last, idle := atomic.LoadInt64(&completed), 0
				for atomic.LoadInt64(&completed) < target && idle < 40 {
					time.Sleep(250 * time.Microsecond)
					if cur := atomic.LoadInt64(&completed); cur == last {
						idle++
					} else {
						last, idle = cur, 0
					}
				}
			case "rotate":
				bg.Add(1)
				go func() { defer bg.Done(); _ = db.VerifRotate() }()
			case "compact":
				if !c.Ticker {
					bg.Add(1)
					go func() {
						defer bg.Done()
						// the database runs its compaction cycles from ONE goroutine, one after the other: so does the harness
						compactMu.Lock()
						defer compactMu.Unlock()
						if _, _, err := db.VerifCompactOnce(); err != nil {
							firstErr.CompareAndSwap(nil, "compaction cycle: "+err.Error())
						}
					}()
				}
			case "park-flush":
				armGate("flush")
			case "park-compact":
				armGate("compact")
			case "release":
				releaseGate()
			}
		}
	}()
	<-chaosDone
	releaseGate()
	wg.Wait()
	bg.Wait()
	if err := db.VerifWaitFlushIdle(); err != nil {
		firstErr.CompareAndSwap(nil, "wait for flusher: "+err.Error())
	}
	// final sequential reads strengthen the history
	for i := 0; i < c.Hot+c.Cold; i++ {
		do(setupClient, input{"get", i, ""})
	}
	cerr := db.Close()
	if e := firstErr.Load(); e != nil {
		return nil, h.V("conc/operation-error", "an operation of a valid workload failed: %s", e.(string))
	}
	if cerr != nil {
		return nil, h.V("conc/close-error", "%v", cerr)
	}
	res.History = hist
	res.Flushes, res.Compacts, res.Parked = atomic.LoadInt32(&g.flushes), atomic.LoadInt32(&g.compactions), atomic.LoadInt32(&g.parked)
	// two clients overlapping on the same key?
	for i := range hist {
		for j := i + 1; j < len(hist) && !res.Overlap; j++ {
			a, b := hist[i], hist[j]
			if a.ClientId != b.ClientId && a.Input.(input).key == b.Input.(input).key && a.Call < b.Return && b.Call < a.Return {
				res.Overlap = true
			}
		}
		if res.Overlap {
			break
		}
	}
	return res, nil
}

func Prop(c Case, x *h.Ctx) *h.Violation {
	dir, done := h.Scratch("c05")
	defer done()
	res, v := Run(c, dir)
	if v != nil {
		return v
	}
	r, info := porcupine.CheckOperationsVerbose(model, res.History, 20*time.Second)
	switch r {
	case porcupine.Illegal:
		return h.V("conc/not-linearizable", "the recorded history of %d operations is not linearizable (flushes %d, compactions %d, parked %d)\n%s", len(res.History), res.Flushes, res.Compacts, res.Parked, describe(res.History, info))
	case porcupine.Unknown:
		x.Label("porcupine-timeout(inconclusive)")
		return nil
	}
	if res.Parked > 0 {
		x.Label("gated-scenario-parked-a-background-writer")
	}
	if res.Flushes > 0 {
		x.Label("flush-during-history")
	}
	if res.Compacts > 0 {
		x.Label("compaction-during-history")
	}
	if c.Ticker {
		x.Label("real-ticker")
	}
	x.Labelf("procs=%d", c.Procs)
	x.SetNonTrivial(res.Flushes > 0 && res.Compacts > 0 && res.Overlap)
	return nil
}

// describe prints the operations of the partition(s) that could not be linearized.
func describe(hist []porcupine.Operation, info porcupine.LinearizationInfo) string {
	var sb strings.Builder
	byKey := map[int][]porcupine.Operation{}
	for _, o := range hist {
		byKey[o.Input.(input).key] = append(byKey[o.Input.(input).key], o)
	}
	for k, ops := range byKey {
		if porcupine.CheckOperations(model, ops) {
			continue
		}
		fmt.Fprintf(&sb, "key k%d:\n", k)
		for _, o := range ops {
			fmt.Fprintf(&sb, "  client %d [%d,%d] %s\n", o.ClientId, o.Call, o.Return, model.DescribeOperation(o.Input, o.Output))
		}
		if sb.Len() > 6000 {
			break
		}
	}
	_ = info
	return sb.String()
}
