// Package c04: RecordIO returns written records unchanged through every reader and access path.
package c04

import (
	"bytes"
	"errors"
	"fmt"
	"io"
	"os"
	"path/filepath"
	"sync"

	"github.com/thomasjungblut/go-sstables/recordio"
	"pgregory.net/rapid"
	"verif/internal/gen"
	"verif/internal/h"
)

type Step struct {
	Op   string   `json:"op"` // write | sync | seek
	Rec  gen.Blob `json:"rec,omitempty"`
	Seek int      `json:"seek,omitempty"` // index of the surviving record to seek back to; -1 = current Size()
}

type Case struct {
	Comp   int  `json:"comp"`
	WBuf   int  `json:"wbuf"`
	RBuf   int  `json:"rbuf"`
	Direct bool `json:"direct,omitempty"`
	// DirectRead: a file written through the buffered factory (any length, no padding) is read through the direct-I/O one
	DirectRead bool   `json:"direct_read,omitempty"`
	Steps      []Step `json:"steps"`
	Prog       []bool `json:"prog"` // reader program: true = ReadNext, false = SkipNext (cycled)
}

var directOnce sync.Once
var directOK bool

func directAvailable() bool {
	directOnce.Do(func() {
		ok, err := recordio.IsDirectIOAvailable()
		directOK = ok && err == nil
	})
	return directOK
}

func Gen() *rapid.Generator[Case] {
	return rapid.Custom(func(t *rapid.T) Case {
		var c Case
		c.Comp = rapid.IntRange(0, 3).Draw(t, "comp")
		c.Direct = rapid.IntRange(0, 5).Draw(t, "direct") == 0
		if c.Direct {
			c.WBuf = rapid.SampledFrom([]int{4096, 4096, 8192, 8192, 65536}).Draw(t, "wbuf")
			c.RBuf = rapid.SampledFrom([]int{4096, 4096, 8192, 8192, 65536}).Draw(t, "rbuf")
		} else {
			c.WBuf = rapid.SampledFrom([]int{1, 7, 64, 4096, 4 << 20}).Draw(t, "wbuf")
			c.RBuf = rapid.SampledFrom([]int{1, 2, 3, 4, 7, 64, 4096, 4 << 20}).Draw(t, "rbuf")
			if c.DirectRead = rapid.IntRange(0, 9).Draw(t, "directread") == 0; c.DirectRead {
				c.RBuf = rapid.SampledFrom([]int{4096, 4096, 8192, 65536}).Draw(t, "rbufd")
			}
		}
		maxLen := 9000
		sizes := []int{c.WBuf, c.RBuf, 1024, 4096}
		for i := range sizes {
			if sizes[i] > maxLen {
				sizes[i] = maxLen
			}
		}
		bg := gen.BlobGen(true, true, sizes, maxLen)
		n := rapid.IntRange(0, 14).Draw(t, "nsteps")
		surviving := 0
		for i := 0; i < n; i++ {
			k := rapid.IntRange(0, 9).Draw(t, "stepkind")
			switch {
			case k == 0 && !c.Direct:
				s := Step{Op: "seek", Seek: -1}
				if surviving > 0 && rapid.IntRange(0, 4).Draw(t, "seekend") > 0 {
					s.Seek = rapid.IntRange(0, surviving-1).Draw(t, "seekto")
					surviving = s.Seek
				}
				c.Steps = append(c.Steps, s)
			case k == 1:
				c.Steps = append(c.Steps, Step{Op: "sync", Rec: bg.Draw(t, "rec")})
				if !c.Direct {
					surviving++
				}
			default:
				c.Steps = append(c.Steps, Step{Op: "write", Rec: bg.Draw(t, "rec")})
				surviving++
			}
		}
		c.Prog = rapid.SliceOfN(rapid.Bool(), 1, 6).Draw(t, "prog")
		return c
	})
}

type rec struct {
	off  uint64
	data []byte
}

func eq(a, b []byte) bool { return bytes.Equal(a, b) && (a == nil) == (b == nil) }

func show(b []byte) string {
	if b == nil {
		return "nil"
	}
	if len(b) > 24 {
		return fmt.Sprintf("%x…(%d bytes)", b[:24], len(b))
	}
	return fmt.Sprintf("%x", b)
}

func Prop(c Case, x *h.Ctx) *h.Violation {
	if (c.Direct || c.DirectRead) && !directAvailable() {
		x.Label("direct-io-unavailable")
		return nil
	}
	dir, done := h.Scratch("c04")
	defer done()
	if c.Direct || c.DirectRead {
		// tmpfs accepts O_DIRECT and ignores its alignment rules: direct-I/O cases run on a disk file system when there is one
		// (not inside the native fuzz engine: it kills workers whose single execution takes long, and disk I/O under 16
		// busy workers does)
		onDisk := false
		if os.Getenv("VERIF_FUZZ") == "" {
			if d, ddone, ok := h.DiskScratch("c04"); ok {
				defer ddone()
				dir, onDisk = d, true
			}
		}
		if onDisk {
			x.Label("direct-io-on-disk-fs")
		} else {
			x.Label("direct-io-on-tmpfs-only")
		}
	}
	path := filepath.Join(dir, "f.rio")

	// ---------------- writer program ----------------
	wopts := []recordio.FileWriterOption{recordio.Path(path), recordio.CompressionType(c.Comp), recordio.BufferSizeBytes(c.WBuf)}
	if c.Direct {
		wopts = append(wopts, recordio.DirectIO())
	}
	w, err := recordio.NewFileWriter(wopts...)
	if err != nil {
		return h.V("recordio/writer-new", "NewFileWriter: %v", err)
	}
	if err := w.Open(); err != nil {
		return h.V("recordio/writer-open", "Open: %v", err)
	}
	var live []rec
	seeked := false
	for i, s := range c.Steps {
		switch s.Op {
		case "write", "sync":
			data := s.Rec.Bytes()
			var off uint64
			var err error
			if s.Op == "sync" {
				off, err = w.WriteSync(data)
				if c.Direct {
					if !errors.Is(err, recordio.DirectIOSyncWriteErr) {
						return h.V("recordio/direct-sync", "step %d: WriteSync with direct I/O returned %v, want DirectIOSyncWriteErr", i, err)
					}
					continue
				}
			} else {
				off, err = w.Write(data)
			}
			if err != nil {
				return h.V("recordio/write-err", "step %d %s(%s): %v", i, s.Op, show(data), err)
			}
			if len(live) == 0 && off != recordio.FileHeaderSizeBytes {
				return h.V("recordio/first-offset", "step %d: first record written at offset %d, want %d", i, off, recordio.FileHeaderSizeBytes)
			}
			if len(live) > 0 && off <= live[len(live)-1].off {
				return h.V("recordio/offset-order", "step %d: offset %d not greater than previous %d", i, off, live[len(live)-1].off)
			}
			if w.Size() <= off {
				return h.V("recordio/size", "step %d: Size()=%d not greater than the returned offset %d", i, w.Size(), off)
			}
			live = append(live, rec{off, data})
		case "seek":
			to := w.Size()
			if s.Seek >= 0 {
				if s.Seek >= len(live) {
					panic("generator bug: seek index out of range")
				}
				to = live[s.Seek].off
				live = live[:s.Seek]
				seeked = true
			}
			if err := w.Seek(to); err != nil {
				return h.V("recordio/seek-err", "step %d: Seek(%d): %v", i, to, err)
			}
			if w.Size() != to {
				return h.V("recordio/size", "step %d: Size()=%d after Seek(%d)", i, w.Size(), to)
			}
		}
	}
	finalSize := w.Size()
	if err := w.Close(); err != nil {
		return h.V("recordio/close-err", "writer Close: %v", err)
	}
	st, err := os.Stat(path)
	if err != nil {
		panic(h.Infra{Msg: "harness file operation failed: " + err.Error()})
	}
	fileLen := uint64(st.Size())
	if !c.Direct && fileLen != finalSize {
		return h.V("recordio/file-length", "closed file has %d bytes, last Size() was %d", fileLen, finalSize)
	}
	if c.Direct && fileLen < finalSize {
		return h.V("recordio/file-length", "closed direct-I/O file has %d bytes, fewer than Size() %d", fileLen, finalSize)
	}

	newReader := func() (recordio.ReaderI, *h.Violation) {
		ropts := []recordio.FileReaderOption{recordio.ReaderPath(path), recordio.ReaderBufferSizeBytes(c.RBuf)}
		if c.Direct || c.DirectRead {
			ropts = append(ropts, recordio.ReaderIoFactory(recordio.DirectIOFactory{}))
		}
		r, err := recordio.NewFileReader(ropts...)
		if err != nil {
			return nil, h.V("recordio/reader-new", "NewFileReader: %v", err)
		}
		if err := r.Open(); err != nil {
			_ = r.Close()
			return nil, h.V("recordio/reader-open", "reader Open: %v", err)
		}
		return r, nil
	}

	// ---------------- sequential reader ----------------
	r, v := newReader()
	if v != nil {
		return v
	}
	for i, want := range live {
		got, err := r.ReadNext()
		if err != nil {
			_ = r.Close()
			return h.V("recordio/seq-read", "ReadNext #%d: %v (want %s)", i, err, show(want.data))
		}
		if !eq(got, want.data) {
			_ = r.Close()
			return h.V("recordio/seq-read", "ReadNext #%d = %s want %s", i, show(got), show(want.data))
		}
	}
	if got, err := r.ReadNext(); !errors.Is(err, io.EOF) {
		_ = r.Close()
		return h.V("recordio/seq-eof", "ReadNext after the last record returned (%s,%v), want io.EOF", show(got), err)
	}
	if err := r.Close(); err != nil {
		return h.V("recordio/close-err", "reader Close: %v", err)
	}

	// ---------------- mixed ReadNext / SkipNext program ----------------
	r, v = newReader()
	if v != nil {
		return v
	}
	mixed := func() *h.Violation {
		for i, want := range live {
			if c.Prog[i%len(c.Prog)] {
				got, err := r.ReadNext()
				if err != nil || !eq(got, want.data) {
					return h.V("recordio/mixed-read", "program step %d ReadNext = (%s,%v) want %s", i, show(got), err, show(want.data))
				}
			} else if err := r.SkipNext(); err != nil {
				kind := "skip"
				if want.data == nil && c.Comp != 0 {
					kind = "skip-nil-compressed"
				}
				return h.V("recordio/mixed-"+kind, "program step %d SkipNext over %s: %v", i, show(want.data), err)
			}
		}
		if got, err := r.ReadNext(); !errors.Is(err, io.EOF) {
			// find out whether a skipped nil record in a compressed file preceded
			return h.V("recordio/mixed-eof", "after consuming all %d records ReadNext returned (%s,%v), want io.EOF", len(live), show(got), err)
		}
		if err := r.SkipNext(); err == nil {
			return h.V("recordio/skip-at-eof", "SkipNext at the end of the file returned no error")
		}
		return nil
	}()
	_ = r.Close()
	if mixed != nil {
		return mixed
	}

	// ---------------- random access ----------------
	m, err := recordio.NewMemoryMappedReaderWithPath(path)
	if err != nil {
		return h.V("recordio/mmap-new", "mmap reader: %v", err)
	}
	if err := m.Open(); err != nil {
		_ = m.Close()
		return h.V("recordio/mmap-open", "mmap Open: %v", err)
	}
	defer m.Close()
	if m.Size() != fileLen {
		return h.V("recordio/mmap-size", "mmap Size()=%d file has %d", m.Size(), fileLen)
	}
	for i, want := range live {
		got, err := m.ReadNextAt(want.off)
		if err != nil || !eq(got, want.data) {
			return h.V("recordio/read-at", "ReadNextAt(%d) (record %d) = (%s,%v) want %s", want.off, i, show(got), err, show(want.data))
		}
	}
	// seek-next from every offset (small files) or around every boundary and window multiple
	var starts []uint64
	if fileLen <= 8192 {
		for o := uint64(0); o <= fileLen; o++ {
			starts = append(starts, o)
		}
	} else {
		seen := map[uint64]bool{}
		add := func(o int64) {
			if o >= 0 && uint64(o) <= fileLen && !seen[uint64(o)] {
				seen[uint64(o)] = true
				starts = append(starts, uint64(o))
			}
		}
		for _, r := range live {
			for d := int64(-4); d <= 4; d++ {
				add(int64(r.off) + d)
			}
		}
		for o := int64(0); o <= int64(fileLen); o += 4096 {
			for d := int64(-4); d <= 4; d++ {
				add(o + d)
			}
		}
		for d := int64(-4); d <= 0; d++ {
			add(int64(fileLen) + d)
		}
	}
	for _, o := range starts {
		// expected: first live record with off >= o
		wi := -1
		for i, r := range live {
			if r.off >= o {
				wi = i
				break
			}
		}
		off, got, err := m.SeekNext(o)
		if wi < 0 {
			if err == nil {
				return h.V("recordio/seek-next-phantom", "SeekNext(%d) past the last record returned offset %d record %s", o, off, show(got))
			}
			continue
		}
		if err != nil {
			return h.V("recordio/seek-next-err", "SeekNext(%d) = error %v, want record %d at %d", o, err, wi, live[wi].off)
		}
		if off != live[wi].off || !eq(got, live[wi].data) {
			return h.V("recordio/seek-next-wrong", "SeekNext(%d) = (%d,%s) want record %d (%d,%s)", o, off, show(got), wi, live[wi].off, show(live[wi].data))
		}
	}

	// ---------------- labels ----------------
	hasNilOrEmpty, cross4k := false, false
	for _, r := range live {
		if len(r.data) == 0 {
			hasNilOrEmpty = true
		}
		if r.off/4096 != (r.off+uint64(len(r.data))+8)/4096 {
			cross4k = true
		}
	}
	x.Labelf("comp=%d", c.Comp)
	if c.Direct {
		x.Label("factory=direct")
	} else if c.DirectRead {
		x.Label("factory=buffered-write-direct-read")
	} else {
		x.Label("factory=buffered")
	}
	if seeked {
		x.Label("seek-back")
	}
	if cross4k {
		x.Label("record-crosses-4096")
	}
	x.Labelf("seeknext-starts=%s", bucket(len(starts)))
	x.SetNonTrivial(len(live) >= 3 && hasNilOrEmpty && (fileLen > uint64(c.WBuf) || seeked || cross4k))
	return nil
}

func bucket(n int) string {
	switch {
	case n < 100:
		return "<100"
	case n < 1000:
		return "100-999"
	default:
		return ">=1000"
	}
}
