package c04

import (
	"testing"

	"verif/internal/h"
)

func TestProp(t *testing.T) {
	h.Run(t, h.Spec[Case]{ID: "C04", Gen: Gen(), Prop: Prop})
}

// FuzzProp is the native coverage-guided fuzz target (thorough tier).
func FuzzProp(f *testing.F) {
	h.Fuzz(f, h.Spec[Case]{ID: "C04", Gen: Gen(), Prop: Prop})
}
