package c04

import (
	"testing"

	"verif/internal/h"
)

func TestProp(t *testing.T) {
	h.Run(t, h.Spec[Case]{ID: "C04", Gen: Gen(), Prop: Prop})
}
