package c13

import (
	"testing"

	"verif/internal/h"
	"verif/props/c02"
)

func TestProp(t *testing.T) {
	h.Run(t, h.Spec[c02.Case]{ID: "C13", Gen: Gen(), Prop: Prop, MayDie: true, CountSubs: true, Shrink: c02.Shrink})
}
