// Package c13: asynchronous WAL - a kill loses only a suffix of recent writes, not the database.
package c13

import (
	"fmt"
	"os"
	"regexp"
	"strings"
	"verif/internal/names"

	"pgregory.net/rapid"
	"verif/internal/crash"
	"verif/internal/fsmodel"
	"verif/internal/h"
	"verif/internal/prog"
	"verif/internal/sdb"
	"verif/props/c02"
)

func largeProgram() *rapid.Generator[prog.Program] {
	return rapid.Custom(func(t *rapid.T) prog.Program {
		p := prog.Program{Kind: "db", Keys: [][]byte{[]byte("k0"), []byte("k1"), []byte("k2"), []byte("k3"), []byte("k4"), []byte("k5")}}
		se := prog.Session{Wait: true}
		se.Opts = sdb.Opts{
			MemLimit:  rapid.SampledFrom([]uint64{1 << 20, 3 << 20, 16 << 20}).Draw(t, "memlimit"),
			Threshold: 1000, MaxSize: 1, Ratio: 1, WBuf: 4 << 20, RBuf: 4 << 20, Async: true,
		}
		total := 0
		for total < 4800*1024 {
			n := rapid.SampledFrom([]int{64 << 10, 100 << 10, 200 << 10, 256 << 10}).Draw(t, "vlen")
			se.Steps = append(se.Steps, prog.Step{Op: "put", Key: rapid.IntRange(0, 5).Draw(t, "key"), VLen: n})
			total += n
			if rapid.IntRange(0, 7).Draw(t, "del") == 0 {
				se.Steps = append(se.Steps, prog.Step{Op: "delete", Key: rapid.IntRange(0, 5).Draw(t, "dkey")})
			}
		}
		p.Sessions = []prog.Session{se}
		return p
	})
}

func Gen() *rapid.Generator[c02.Case] {
	return rapid.Custom(func(t *rapid.T) c02.Case {
		if rapid.IntRange(0, 9).Draw(t, "large") == 0 {
			return c02.Case{Program: largeProgram().Draw(t, "largeprog")}
		}
		p := c02.ProgramGen(true).Draw(t, "program")
		for i := range p.Sessions {
			p.Sessions[i].Opts.MemLimit = rapid.SampledFrom([]uint64{256, 1024, 16 << 10, 16 << 20}).Draw(t, "memlimit")
			// the statement is about ONE kill: a session that is abandoned without Close loses a suffix by design, and the
			// operations of the next session would then not extend a prefix of the whole sequence
			p.Sessions[i].NoClose = false
		}
		return c02.Case{Program: p}
	})
}

var walFile = regexp.MustCompile(`^` + regexp.QuoteMeta(names.WalDir) + `/\d+\.wal$`)

// newJudge returns the C13 oracle; it tracks, across the boundaries of one run, how many operations
// preceded the last WAL rotation (or clean shutdown / completed recovery) that had completed.
func newJudge(x *h.Ctx) func(p *prog.Program, ops []prog.Op, b *crash.Boundary, fs *fsmodel.FS, work string, active bool) (string, string) {
	must := 0
	return func(p *prog.Program, ops []prog.Op, b *crash.Boundary, fs *fsmodel.FS, work string, active bool) (string, string) {
		nRet := 0
		for nRet < len(ops) && b.Ops.Returned[nRet] {
			nRet++
		}
		nCalled := nRet
		for nCalled < len(ops) && b.Ops.Called[nCalled] {
			nCalled++
		}
		// a rotation has completed when the next numbered log file has been created: the previous file was flushed and closed before
		// (or has been given its name: a file may be set up under a temporary name first)
		if ((b.Last.Op == "create" && walFile.MatchString(b.Last.Path)) || (b.Last.Op == "rename" && walFile.MatchString(b.Last.Path2))) && !(nCalled > nRet && ops[nRet].Kind == "open") {
			must = nRet
		}
		// a clean Close (or a completed Open) makes everything acknowledged so far durable
		if b.Last.Op == "marker" && nRet > 0 && (ops[nRet-1].Kind == "close" || ops[nRet-1].Kind == "open") && nRet > must {
			must = nRet
		}
		if !active {
			return "", ""
		}
		dir, err := crash.Materialize(fs, work)
		if err != nil {
			panic(h.Infra{Msg: "harness file operation failed: " + err.Error()})
		}
		defer os.RemoveAll(dir)
		win := crash.Window(b, ops)
		// is the newest log file cut inside a record? (label for the non-triviality rule)
		got, oerr := crash.ReadAll(dir, p.Keys, true)
		if oerr != nil {
			return fmt.Sprintf("asyncwal/%s-failed/%s/%s", oerr.Phase, win, oerr.Class()),
				fmt.Sprintf("recovery of the image after system call #%d (%s %s; window %s) failed in %s: %.600s\nimage: %s", b.Seq, b.Last.Op, b.Last.Path, win, oerr.Phase, oerr.Err, strings.Join(fs.Listing(), ", "))
		}
		// content must equal the model after some prefix of the called operations, at least `must` long
		var idx []int
		for i := 0; i < must; i++ {
			idx = append(idx, i)
		}
		best := ""
		for pl := must; pl <= nCalled; pl++ {
			if pl > must {
				idx = append(idx, pl-1)
			}
			d := crash.Diff(crash.ModelAfter(p, ops, idx), got)
			if d == "" {
				if pl < nRet {
					x.Label("lost-suffix-of-acknowledged-writes")
				}
				return "", ""
			}
			if pl == nRet {
				best = d
			}
		}
		return fmt.Sprintf("asyncwal/not-a-prefix/%s", win),
			fmt.Sprintf("image after system call #%d (%s %s; window %s): %d operations acknowledged, %d preceded the last completed rotation/shutdown; the recovered content equals no prefix of length %d..%d of the operation sequence (vs all acknowledged: %s)\nimage: %s",
				b.Seq, b.Last.Op, b.Last.Path, win, nRet, must, must, nCalled, best, strings.Join(fs.Listing(), ", "))
	}
}

func Prop(c c02.Case, x *h.Ctx) *h.Violation {
	large := false
	for _, s := range c.Program.Sessions {
		for _, st := range s.Steps {
			if st.VLen >= 64<<10 {
				large = true
			}
		}
	}
	if large {
		x.Label("large-program-over-4MiB-of-log")
	} else {
		x.Label("small-program")
	}
	return c02.ExecuteOpts("C13", c, x, newJudge(x), 9<<20)
}
