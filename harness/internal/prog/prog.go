// Package prog defines the JSON programs the child runner executes (simpledb sessions, WAL append
// programs, recovery-only runs) and the acknowledgement protocol between the runner and the harness.
package prog

import (
	"fmt"

	"verif/internal/gen"
	"verif/internal/sdb"
)

type Step struct {
	Op   string `json:"op"` // put delete get rotate waitflush compact   | wal: append sync walrotate
	Key  int    `json:"key,omitempty"`
	VLen int    `json:"vlen,omitempty"`
	// Raw: explicit key/value (C17: rejected calls). When RawSet, Key/VLen are ignored.
	RawSet bool     `json:"raw_set,omitempty"`
	RawKey gen.Blob `json:"raw_key,omitempty"`
	RawVal gen.Blob `json:"raw_val,omitempty"`
	Rec    gen.Blob `json:"rec,omitempty"` // wal record
}

type Session struct {
	Opts sdb.Opts `json:"opts"`
	// Wait: after every step wait until the flusher is idle (deterministic mode: one goroutine issues system calls at a time)
	Wait  bool   `json:"wait,omitempty"`
	Steps []Step `json:"steps"`
	// NoClose: the session ends without Close (the process just exits)
	NoClose bool `json:"no_close,omitempty"`
}

type WalOpts struct {
	MaxSize uint64 `json:"max_size"`
	WBuf    int    `json:"wbuf"`
	Comp    int    `json:"comp"`
}

// Program is what the runner executes.
type Program struct {
	Kind     string    `json:"kind"` // db | wal | recover
	Keys     [][]byte  `json:"keys,omitempty"`
	Sessions []Session `json:"sessions,omitempty"`
	Wal      *WalOpts  `json:"wal,omitempty"`
	WalSteps []Step    `json:"wal_steps,omitempty"`
	// Faults for the system leg of C11: which flush / compaction writer fails where
	Fault *WriterFault `json:"fault,omitempty"`
}

type WriterFault struct {
	Target string `json:"target"` // "flush" | "compaction"
	Nth    int    `json:"nth"`    // the Nth writer of that kind (0-based)
	Which  string `json:"which"`  // "data" | "index"
	Pos    int    `json:"pos"`    // fails at its Pos-th write
	Sticky bool   `json:"sticky"`
}

// Op is one acknowledged operation of a db program, numbered globally across sessions.
type Op struct {
	Index   int
	Session int
	Step    *Step  // nil for open/close
	Kind    string // open close put delete get rotate waitflush compact append sync walrotate
}

// Ops flattens a program into its numbered operation list (the numbering of the ack markers).
func (p *Program) Ops() []Op {
	var ops []Op
	add := func(o Op) { o.Index = len(ops); ops = append(ops, o) }
	switch p.Kind {
	case "db":
		for si := range p.Sessions {
			add(Op{Session: si, Kind: "open"})
			for i := range p.Sessions[si].Steps {
				st := &p.Sessions[si].Steps[i]
				add(Op{Session: si, Step: st, Kind: st.Op})
			}
			if !p.Sessions[si].NoClose {
				add(Op{Session: si, Kind: "close"})
			}
		}
	case "wal":
		add(Op{Kind: "open"})
		for i := range p.WalSteps {
			st := &p.WalSteps[i]
			add(Op{Step: st, Kind: st.Op})
		}
		add(Op{Kind: "close"})
	case "recover":
		add(Op{Kind: "open"})
		add(Op{Kind: "close"})
	}
	return ops
}

// KeyOf / ValueOf resolve the key and value of a put/delete step; idx is the global op index.
func (p *Program) KeyOf(st *Step) []byte {
	if st.RawSet {
		return st.RawKey.Bytes()
	}
	return p.Keys[st.Key%len(p.Keys)]
}

func (p *Program) ValueOf(st *Step, idx int) []byte {
	if st.RawSet {
		return st.RawVal.Bytes()
	}
	return sdb.Value(idx, st.VLen)
}

func CallMarker(i int) string          { return fmt.Sprintf("call %d\n", i) }
func RetMarker(i int, r string) string { return fmt.Sprintf("ret %d %s\n", i, r) }
