// Package h is the shared property runner: it drives a property over rapid-generated
// cases, records what the generator produced (labels, distinct non-trivial cases, samples),
// saves the (shrunk) failing case as a replay file and classifies violations against the
// committed known-findings file.
//
// Environment (set by /verif/check):
//
//	VERIF_OUT     directory for this shard's stats.json / violation.json / inflight.json
//	VERIF_KNOWN   path of KNOWN_FINDINGS.txt
//	VERIF_REPLAY  replay file: run Prop on exactly this case, no rapid
//	VERIF_CORPUS  directory of saved regression cases, run before the generated ones
//	VERIF_TIER    quick | thorough (generators may scale sizes with it)
package h

import (
	"bufio"
	"crypto/sha256"
	"encoding/hex"
	"encoding/json"
	"fmt"
	"os"
	"path/filepath"
	"runtime"
	"runtime/debug"
	"sort"
	"strconv"
	"strings"
	"sync"
	"syscall"
	"testing"
	"time"

	"pgregory.net/rapid"
)

// Violation describes one counterexample. Fingerprint names the class of the failure in a way that
// is stable across runs (used to match known findings); Msg is for humans.
type Violation struct {
	Fingerprint string `json:"fingerprint"`
	Msg         string `json:"msg"`
	// ReplayCase, when set, is stored in the replay file instead of the generated case (the crash
	// engine adds the recorded trace and the boundary so that replay does not depend on the schedule).
	ReplayCase any `json:"-"`
}

func V(fp, format string, args ...any) *Violation {
	return &Violation{Fingerprint: fp, Msg: fmt.Sprintf(format, args...)}
}

// Infra is panicked by harness code for problems of the machinery itself; the case is discarded, never judged.
type Infra struct{ Msg string }

func (i Infra) IsInfra() bool  { return true }
func (i Infra) String() string { return i.Msg }

func (v *Violation) String() string { return v.Fingerprint + ": " + v.Msg }

// Ctx records what one case turned out to be.
type Ctx struct {
	labels     []string
	nontrivial bool
	subs       []sub
	subEvals   int
	sample     any
	discard    string
}

type sub struct {
	key string
	nt  bool
}

func (c *Ctx) Label(s string) { c.labels = append(c.labels, s) }
func (c *Ctx) Labelf(format string, a ...any) {
	c.labels = append(c.labels, fmt.Sprintf(format, a...))
}
func (c *Ctx) NonTrivial()          { c.nontrivial = true }
func (c *Ctx) SetNonTrivial(b bool) { c.nontrivial = c.nontrivial || b }

// Sub records one enumerated position inside the case (fault position, damaged copy, crash image).
// key must identify the position within the case; nt says whether it is non-trivial by the rule.
func (c *Ctx) Sub(key string, nt bool) {
	c.subEvals++
	if nt {
		c.subs = append(c.subs, sub{key, true})
	}
}

// SubN counts n enumerated positions that are trivial (or not individually tracked).
func (c *Ctx) SubN(n int) { c.subEvals += n }

// Discard marks the case as not judged for a reason that lies in the machinery (e.g. the crash engine's
// self-check rejected the trace). Discarded cases are counted separately and never raise an alarm.
func (c *Ctx) Discard(reason string) { c.discard = reason }

// Sample overrides what is stored as a sample for this case (default: the case itself).
func (c *Ctx) Sample(v any) { c.sample = v }

type Spec[C any] struct {
	ID   string
	Gen  *rapid.Generator[C]
	Prop func(c C, x *Ctx) *Violation
	// MayDie: the code under test may kill the process (log.Panicf in a goroutine); the case is
	// written to inflight.json before it runs so the driver can report it.
	MayDie bool
	// CountSubs: evaluations/distinct_nontrivial are counted over Sub() positions rather than cases.
	CountSubs bool
	// Enumerate, when set, yields a finite family of cases that is run exhaustively before the
	// generated ones (e.g. all permutations of up to n keys). emit returns false to stop.
	Enumerate func(emit func(C) bool)
	// Shrink, when set, proposes structurally simpler variants of a failing case (fewer sessions, fewer
	// steps). After rapid has finished its own minimisation the runner applies them greedily (delta
	// debugging on the case value) while the same fingerprint keeps failing.
	Shrink func(c C) []C
}

type stats struct {
	Property      string         `json:"property"`
	Cases         int            `json:"cases"`
	Evaluations   int            `json:"evaluations"`
	NonTrivial    []string       `json:"nontrivial_hashes"`
	Labels        map[string]int `json:"labels"`
	Samples       []any          `json:"samples"`
	ExcludedKnown map[string]int `json:"excluded_known"`
	Discarded     map[string]int `json:"discarded"`
	CorpusRun     int            `json:"corpus_run"`
	Violation     *violationFile `json:"violation,omitempty"`
}

type violationFile struct {
	Property    string          `json:"property"`
	Fingerprint string          `json:"fingerprint"`
	Msg         string          `json:"msg"`
	Case        json.RawMessage `json:"case"`
}

const maxHashes = 4_000_000

type runner[C any] struct {
	spec   Spec[C]
	mu     sync.Mutex
	st     stats
	nt     map[[8]byte]struct{}
	known  map[string]string // fingerprint -> description
	failed bool
	last   *violationFile
	out    string
}

func loadKnown(id string) map[string]string {
	m := map[string]string{}
	p := os.Getenv("VERIF_KNOWN")
	if p == "" {
		return m
	}
	f, err := os.Open(p)
	if err != nil {
		return m
	}
	defer f.Close()
	sc := bufio.NewScanner(f)
	for sc.Scan() {
		line := strings.TrimSpace(sc.Text())
		if !strings.HasPrefix(line, "known:") {
			continue
		}
		fs := strings.Fields(line)
		var prop, key string
		rest := []string{}
		for _, w := range fs[1:] {
			switch {
			case strings.HasPrefix(w, "property=") && prop == "":
				prop = strings.TrimPrefix(w, "property=")
			case strings.HasPrefix(w, "key=") && key == "":
				key = strings.TrimPrefix(w, "key=")
			default:
				rest = append(rest, w)
			}
		}
		if prop == id && key != "" {
			m[key] = strings.Join(rest, " ")
		}
	}
	return m
}

// KnownMatch reports whether fingerprint fp is covered by a known-finding key. A key matches when it
// equals the fingerprint or is a prefix of it ending at a '/' boundary.
func knownMatch(known map[string]string, fp string) (string, bool) {
	if _, ok := known[fp]; ok {
		return fp, true
	}
	for k := range known {
		if strings.HasPrefix(fp, k+"/") {
			return k, true
		}
	}
	return "", false
}

func hash8(b []byte) [8]byte {
	s := sha256.Sum256(b)
	var r [8]byte
	copy(r[:], s[:8])
	return r
}

// safeProp runs prop and converts a panic in the harness or the code under test into a violation.
func safeProp[C any](prop func(C, *Ctx) *Violation, c C, x *Ctx) (v *Violation) {
	defer func() {
		if r := recover(); r != nil {
			if ie, ok := r.(interface{ IsInfra() bool }); ok && ie.IsInfra() {
				x.discard = "infra: " + fmt.Sprint(r)
				v = nil
				return
			}
			st := string(debug.Stack())
			if panicInHarness(st) {
				// raised by harness code itself (an oracle bug, a harness file operation, a method of a harness fake that
				// the library has grown since): says nothing about the code under test
				x.discard = "infra: panic in harness code: " + fmt.Sprint(r) + " at " + harnessFrame(st)
				v = nil
				return
			}
			v = &Violation{Fingerprint: "panic/" + panicSite(st), Msg: fmt.Sprintf("panic: %v\n%s", r, st)}
		}
	}()
	return prop(c, x)
}

// panicInHarness: the function that panicked (first frame below the runtime's panic machinery) belongs to the harness.
func panicInHarness(stack string) bool {
	return strings.HasPrefix(harnessFrame(stack), "verif/")
}

// harnessFrame returns the first function frame after the last "panic(" / runtime frame block at the top of the stack.
func harnessFrame(stack string) string {
	lines := strings.Split(stack, "\n")
	seenPanic := false
	for _, ln := range lines {
		if strings.HasPrefix(ln, "\t") || strings.HasPrefix(ln, "goroutine ") || ln == "" {
			continue
		}
		if strings.HasPrefix(ln, "panic(") {
			seenPanic = true
			continue
		}
		if !seenPanic {
			continue // debug.Stack, the deferred recover function
		}
		if strings.HasPrefix(ln, "runtime.") || strings.HasPrefix(ln, "runtime/") {
			continue // sigpanic, panicmem, goPanicIndex ...
		}
		if i := strings.LastIndex(ln, "("); i > 0 {
			ln = ln[:i]
		}
		return ln
	}
	return ""
}

// panicSite extracts the first go-sstables frame of a stack for a stable fingerprint.
func panicSite(stack string) string {
	for _, ln := range strings.Split(stack, "\n") {
		ln = strings.TrimSpace(ln)
		if strings.HasPrefix(ln, "github.com/thomasjungblut/go-sstables/") {
			if i := strings.Index(ln, "("); i > 0 {
				ln = ln[:i]
			}
			return strings.TrimPrefix(ln, "github.com/thomasjungblut/go-sstables/")
		}
	}
	return "unknown"
}

// inflight records the case that is about to run (so that the driver can name it if the process dies or hangs) and
// starts the watchdog: a single case that runs longer than the allowance (VERIF_CASE_LIMIT_S, default 600 s quick / 1800 s thorough; cases take milliseconds
// to seconds) ends the process with status 97 after dumping all goroutine stacks. The driver then replays that case
// alone with a doubled allowance - only a case that does not finish twice is reported (as a hang).
func (r *runner[C]) inflight(cj []byte) (stop func()) {
	if r.out == "" {
		return func() {}
	}
	path := filepath.Join(r.out, "inflight.json")
	_ = os.WriteFile(path, cj, 0o644)
	limit := caseLimit()
	t := time.AfterFunc(limit, func() {
		buf := make([]byte, 1<<20)
		n := runtime.Stack(buf, true)
		fmt.Fprintf(os.Stderr, "\nWATCHDOG: the case in inflight.json did not finish within %v; goroutines:\n%s\n", limit, buf[:n])
		os.Exit(97)
	})
	return func() {
		t.Stop()
		_ = os.Remove(path)
	}
}

func caseLimit() time.Duration {
	if v, err := strconv.Atoi(os.Getenv("VERIF_CASE_LIMIT_S")); err == nil && v > 0 {
		return time.Duration(v) * time.Second
	}
	if Thorough() {
		return 1800 * time.Second
	}
	return 600 * time.Second
}

func (r *runner[C]) exec(c C, count bool) *Violation {
	cj, err := json.Marshal(c)
	if err != nil {
		panic(fmt.Sprintf("case not serialisable: %v", err))
	}
	stop := r.inflight(cj)
	x := &Ctx{}
	v := safeProp(r.spec.Prop, c, x)
	stop()
	r.mu.Lock()
	defer r.mu.Unlock()
	if v != nil {
		if k, ok := knownMatch(r.known, v.Fingerprint); ok {
			if count && !r.failed {
				r.st.ExcludedKnown[k]++
				r.st.Cases++
				r.st.Evaluations++
			}
			return nil
		}
		r.failed = true
		rj := cj
		if v.ReplayCase != nil {
			if b, err := json.Marshal(v.ReplayCase); err == nil {
				rj = b
			}
		}
		r.last = &violationFile{Property: r.spec.ID, Fingerprint: v.Fingerprint, Msg: v.Msg, Case: rj}
		return v
	}
	if !count || r.failed {
		return nil
	}
	if x.discard != "" {
		r.st.Discarded[x.discard]++
		return nil
	}
	r.st.Cases++
	for _, l := range x.labels {
		r.st.Labels[l]++
	}
	ch := hash8(cj)
	if r.spec.CountSubs || x.subEvals > 0 {
		r.st.Evaluations += x.subEvals
		for _, s := range x.subs {
			if len(r.nt) < maxHashes {
				r.nt[hash8(append(ch[:], s.key...))] = struct{}{}
			}
		}
		if len(x.subs) > 0 {
			x.nontrivial = true
		}
	} else {
		r.st.Evaluations++
		if x.nontrivial && len(r.nt) < maxHashes {
			r.nt[ch] = struct{}{}
		}
	}
	if x.nontrivial && len(r.st.Samples) < 3 {
		var s any = json.RawMessage(cj)
		if x.sample != nil {
			s = x.sample
		} else if len(cj) > 6000 {
			s = map[string]any{"truncated_case_json": string(cj[:6000]), "bytes": len(cj)}
		}
		r.st.Samples = append(r.st.Samples, s)
	}
	return nil
}

// structuralShrink greedily applies spec.Shrink candidates to the last failing case.
func (r *runner[C]) structuralShrink() {
	if r.spec.Shrink == nil || r.last == nil || os.Getenv("VERIF_REPLAY") != "" {
		return
	}
	budget := 60 * time.Second
	if v := os.Getenv("VERIF_SHRINK_S"); v != "" {
		if n, err := strconv.Atoi(v); err == nil {
			budget = time.Duration(n) * time.Second
		}
	}
	deadline := time.Now().Add(budget)
	var best C
	if err := json.Unmarshal(r.last.Case, &best); err != nil {
		return
	}
	fp := r.last.Fingerprint
	bestV := *r.last
	improved := true
	for improved && time.Now().Before(deadline) {
		improved = false
		for _, cand := range r.spec.Shrink(best) {
			if time.Now().After(deadline) {
				break
			}
			cj, err := json.Marshal(cand)
			bj, _ := json.Marshal(best)
			if err != nil || len(cj) >= len(bj) {
				continue
			}
			stop := r.inflight(cj)
			v := safeProp(r.spec.Prop, cand, &Ctx{})
			stop()
			if v != nil && v.Fingerprint == fp {
				best = cand
				rj := cj
				if v.ReplayCase != nil {
					if b, err := json.Marshal(v.ReplayCase); err == nil {
						rj = b
					}
				}
				bestV = violationFile{Property: r.spec.ID, Fingerprint: v.Fingerprint, Msg: v.Msg, Case: rj}
				improved = true
				break
			}
		}
	}
	r.mu.Lock()
	r.last = &bestV
	r.mu.Unlock()
}

// ShrinkList returns variants of xs with chunks removed: halves, quarters, ..., single elements.
func ShrinkList[T any](xs []T) [][]T {
	var out [][]T
	n := len(xs)
	for chunk := n; chunk >= 1; chunk /= 2 {
		for start := 0; start < n; start += chunk {
			end := start + chunk
			if end > n {
				end = n
			}
			v := append(append([]T{}, xs[:start]...), xs[end:]...)
			out = append(out, v)
		}
		if chunk == 1 {
			break
		}
	}
	return out
}

func (r *runner[C]) flush() {
	if r.out == "" {
		return
	}
	r.mu.Lock()
	defer r.mu.Unlock()
	r.st.NonTrivial = r.st.NonTrivial[:0]
	for k := range r.nt {
		r.st.NonTrivial = append(r.st.NonTrivial, hex.EncodeToString(k[:]))
	}
	sort.Strings(r.st.NonTrivial)
	r.st.Violation = r.last
	b, _ := json.Marshal(r.st)
	_ = os.WriteFile(filepath.Join(r.out, "stats.json"), b, 0o644)
	if r.last != nil {
		vb, _ := json.MarshalIndent(r.last, "", " ")
		_ = os.WriteFile(filepath.Join(r.out, "violation.json"), vb, 0o644)
	}
}

// Run is the body of the single Test function of a property package.
func Run[C any](t *testing.T, spec Spec[C]) {
	r := &runner[C]{spec: spec, nt: map[[8]byte]struct{}{}, known: loadKnown(spec.ID), out: os.Getenv("VERIF_OUT")}
	r.st = stats{Property: spec.ID, Labels: map[string]int{}, ExcludedKnown: map[string]int{}, Discarded: map[string]int{}}
	defer func() {
		r.structuralShrink()
		r.flush()
	}()

	// 1. replay mode: exactly one case, no library.
	if p := os.Getenv("VERIF_REPLAY"); p != "" {
		c, err := LoadCase[C](p)
		if err != nil {
			t.Fatalf("cannot load replay file %s: %v", p, err)
		}
		// in replay mode known findings are NOT suppressed: the caller wants to see the failure.
		r.known = map[string]string{}
		if v := r.exec(c, true); v != nil {
			t.Fatalf("REPLAY-VIOLATION %s", v)
		}
		t.Logf("replay passed")
		return
	}

	// 2. regression corpus: shrunk failures of repaired defects and hostile constants.
	if dir := os.Getenv("VERIF_CORPUS"); dir != "" {
		files, _ := filepath.Glob(filepath.Join(dir, "*.json"))
		sort.Strings(files)
		for _, f := range files {
			if strings.HasPrefix(filepath.Base(f), "known_") {
				continue // repros of listed findings are run by the driver in replay mode
			}
			c, err := LoadCase[C](f)
			if err != nil {
				t.Fatalf("cannot load corpus file %s: %v", f, err)
			}
			r.st.CorpusRun++
			if v := r.exec(c, true); v != nil {
				t.Fatalf("corpus case %s: %s", f, v)
			}
		}
	}

	// 3. exhaustive family.
	if spec.Enumerate != nil && os.Getenv("VERIF_SHARD") == "" || os.Getenv("VERIF_SHARD") == "0" {
		if spec.Enumerate != nil {
			var fail *Violation
			n := 0
			spec.Enumerate(func(c C) bool {
				n++
				if v := r.exec(c, true); v != nil {
					fail = v
					return false
				}
				return true
			})
			r.st.Labels["enumerated"] += n
			if fail != nil {
				t.Fatalf("enumerated case: %s", fail)
			}
		}
	}

	// 4. generated cases.
	rapid.Check(t, func(rt *rapid.T) {
		c := spec.Gen.Draw(rt, "case")
		if v := r.exec(c, true); v != nil {
			rt.Fatalf("%s", v)
		}
	})
}

// LoadCase reads either a bare case or a violation file wrapping one.
func LoadCase[C any](path string) (C, error) {
	var c C
	b, err := os.ReadFile(path)
	if err != nil {
		return c, err
	}
	var vf violationFile
	if json.Unmarshal(b, &vf) == nil && len(vf.Case) > 0 && vf.Property != "" {
		b = vf.Case
	}
	dec := json.NewDecoder(strings.NewReader(string(b)))
	dec.DisallowUnknownFields()
	err = dec.Decode(&c)
	return c, err
}

// Tier returns "quick" or "thorough".
func Tier() string {
	if os.Getenv("VERIF_TIER") == "thorough" {
		return "thorough"
	}
	return "quick"
}

func Thorough() bool { return Tier() == "thorough" }

// Scratch returns a fresh scratch directory (tmpfs when available) and a cleanup function.
func Scratch(prefix string) (string, func()) {
	base := os.Getenv("VERIF_SCRATCH")
	if base == "" {
		if st, err := os.Stat("/dev/shm"); err == nil && st.IsDir() {
			base = "/dev/shm"
		} else {
			base = os.TempDir()
		}
	}
	d, err := os.MkdirTemp(base, "verif-"+prefix+"-")
	if err != nil {
		panic(Infra{Msg: "harness file operation failed: " + err.Error()})
	}
	return d, func() { _ = os.RemoveAll(d) }
}

// DiskScratch returns a fresh scratch directory on a disk-backed file system (VERIF_SCRATCH_DISK, else /var/tmp) and a
// cleanup function; ok is false when no such directory exists or it is a tmpfs as well. tmpfs accepts O_DIRECT but
// ignores its alignment rules, and it never reorders directory entries - some behaviour only shows on a real file system.
func DiskScratch(prefix string) (dir string, cleanup func(), ok bool) {
	for _, base := range []string{os.Getenv("VERIF_SCRATCH_DISK"), "/var/tmp"} {
		if base == "" {
			continue
		}
		var st syscall.Statfs_t
		if err := syscall.Statfs(base, &st); err != nil || st.Type == 0x01021994 /* TMPFS_MAGIC */ || st.Type == 0x858458f6 /* RAMFS_MAGIC */ {
			continue
		}
		d, err := os.MkdirTemp(base, "verif-"+prefix+"-")
		if err != nil {
			continue
		}
		return d, func() { _ = os.RemoveAll(d) }, true
	}
	return "", func() {}, false
}

// Fuzz is the body of the native fuzz target of a property package (thorough tier only): the fuzzer's
// bytes drive the same rapid generators, the same Prop judges the case, and a violation is written to
// VERIF_OUT/violation.json in the same format the rapid runner uses.
func Fuzz[C any](f *testing.F, spec Spec[C]) {
	known := loadKnown(spec.ID)
	out := os.Getenv("VERIF_OUT")
	f.Fuzz(rapid.MakeFuzz(func(rt *rapid.T) {
		c := spec.Gen.Draw(rt, "case")
		x := &Ctx{}
		v := safeProp(spec.Prop, c, x)
		if v == nil {
			return
		}
		if _, ok := knownMatch(known, v.Fingerprint); ok {
			return
		}
		cj, _ := json.Marshal(c)
		if v.ReplayCase != nil {
			if b, err := json.Marshal(v.ReplayCase); err == nil {
				cj = b
			}
		}
		if out != "" {
			vb, _ := json.MarshalIndent(violationFile{Property: spec.ID, Fingerprint: v.Fingerprint, Msg: v.Msg, Case: cj}, "", " ")
			_ = os.WriteFile(filepath.Join(out, "violation.json"), vb, 0o644)
		}
		rt.Fatalf("%s", v)
	}))
}
