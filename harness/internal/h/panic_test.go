package h

import (
	"testing"

	"github.com/thomasjungblut/go-sstables/recordio"
)

func TestPanicClassification(t *testing.T) {
	x := &Ctx{}
	v := safeProp(func(c int, x *Ctx) *Violation {
		var m map[string]int
		m["a"] = 1 // harness bug
		return nil
	}, 0, x)
	if v != nil || x.discard == "" {
		t.Fatalf("harness panic must be a discard, got %v / %q", v, x.discard)
	}
	x = &Ctx{}
	v = safeProp(func(c int, x *Ctx) *Violation {
		var s []int
		_ = s[c+3] // index out of range in harness code
		return nil
	}, 0, x)
	if v != nil || x.discard == "" {
		t.Fatalf("harness index panic must be a discard, got %v / %q", v, x.discard)
	}
	x = &Ctx{}
	v = safeProp(func(c int, x *Ctx) *Violation {
		var r *recordio.FileReader
		_, _ = r.ReadNext() // nil receiver: panics inside the library
		return nil
	}, 0, x)
	if v == nil {
		t.Fatalf("library panic must be a violation (discard=%q)", x.discard)
	}
	t.Log(v.Fingerprint)
}
