// Package names takes the on-disk names the harness classifies by from the repository's own exported constants, so
// that renaming a directory or marker file in the repository does not silently empty a coverage class.
package names

import (
	"fmt"
	"path/filepath"
	"strings"

	"github.com/thomasjungblut/go-sstables/simpledb"
	"github.com/thomasjungblut/go-sstables/sstables"
)

var (
	WalDir           = simpledb.WriteAheadFolder
	TablePrefix      = simpledb.SSTablePrefix + "_"
	CompactionPrefix = simpledb.SSTableCompactionPathPrefix
	SuccessFlag      = simpledb.CompactionFinishedSuccessfulFileName
)

// IsWal: p (relative to the database directory) is the log directory or lies inside it.
func IsWal(p string) bool { return p == WalDir || strings.HasPrefix(p, WalDir+"/") }

// IsCompactionDir: p is, or lies inside, the working directory of a compaction.
func IsCompactionDir(p string) bool { return p != "" && strings.HasPrefix(p, CompactionPrefix) }

// IsTable: p is, or lies inside, a numbered table directory (not a compaction working directory).
func IsTable(p string) bool { return strings.HasPrefix(p, TablePrefix) && !IsCompactionDir(p) }

// TableFile gives the path of a file of the n-th table; which is one of data, index, bloom, meta.
func TableFile(n int, which string) string {
	f := map[string]string{"data": sstables.DataFileName, "index": sstables.IndexFileName, "bloom": sstables.BloomFileName, "meta": sstables.MetaFileName}[which]
	return filepath.Join(fmt.Sprintf(simpledb.SSTablePattern, n), f)
}

// WalFile gives the path of the n-th log file.
func WalFile(n int) string { return filepath.Join(WalDir, fmt.Sprintf("%06d.wal", n)) }
