// Package failw: failing recordio writers, the failure model of the repository's own
// failingRecordIoWriter (sstable_writer_test.go): the chosen call returns an error without touching
// the underlying writer.
package failw

import (
	"errors"

	"github.com/thomasjungblut/go-sstables/recordio"
	rProto "github.com/thomasjungblut/go-sstables/recordio/proto"
	"google.golang.org/protobuf/proto"
)

var ErrInjected = errors.New("injected write failure")

// Ctl decides whether the next write fails. Fired counts failures delivered.
type Ctl struct {
	FailNext bool
	Sticky   bool
	// FailAt >= 0: the FailAt-th write (0-based) fails; counted over Calls.
	FailAt int
	Calls  int
	Fired  int
	// FailClose: Close fails before anything buffered was flushed (the underlying writer is not closed at all),
	// which is what a failing final flush looks like to the caller
	FailClose bool
	OnFire    func()
}

func NewCtl() *Ctl { return &Ctl{FailAt: -1} }

func (c *Ctl) shouldFail() bool {
	call := c.Calls
	c.Calls++
	if c.FailNext || (c.FailAt >= 0 && call == c.FailAt) || (c.Sticky && c.Fired > 0) {
		c.fire()
		return true
	}
	return false
}

func (c *Ctl) fire() {
	c.Fired++
	if c.OnFire != nil {
		c.OnFire()
	}
}

// Data wraps a record writer; only Write, WriteSync and Close are intercepted, every other method of the interface
// (also ones it may grow) goes straight to the wrapped writer through the embedded field.
type Data struct {
	recordio.WriterI
	C *Ctl
}

func (f *Data) Close() error {
	if f.C.FailClose {
		f.C.fire()
		return ErrInjected
	}
	return f.WriterI.Close()
}
func (f *Data) Write(r []byte) (uint64, error) {
	if f.C.shouldFail() {
		return 0, ErrInjected
	}
	return f.WriterI.Write(r)
}
func (f *Data) WriteSync(r []byte) (uint64, error) {
	if f.C.shouldFail() {
		return 0, ErrInjected
	}
	return f.WriterI.WriteSync(r)
}

// Index wraps an index writer the same way.
type Index struct {
	rProto.WriterI
	C *Ctl
}

func (f *Index) Close() error {
	if f.C.FailClose {
		f.C.fire()
		return ErrInjected
	}
	return f.WriterI.Close()
}
func (f *Index) Write(m proto.Message) (uint64, error) {
	if f.C.shouldFail() {
		return 0, ErrInjected
	}
	return f.WriterI.Write(m)
}
func (f *Index) WriteSync(m proto.Message) (uint64, error) {
	if f.C.shouldFail() {
		return 0, ErrInjected
	}
	return f.WriterI.WriteSync(m)
}
