// Package tbl: helpers to write and read SSTables with generated options.
package tbl

import (
	"errors"
	"fmt"

	"github.com/thomasjungblut/go-sstables/skiplist"
	"github.com/thomasjungblut/go-sstables/sstables"
	"pgregory.net/rapid"
	"verif/internal/gen"
)

type KV struct {
	K []byte   `json:"k"`
	V gen.Blob `json:"v"`
}

type Pair struct {
	K, V []byte
}

type WOpts struct {
	DataComp  int     `json:"data_comp"`
	IndexComp int     `json:"index_comp"`
	BloomN    uint64  `json:"bloom_n"`
	BloomP    float64 `json:"bloom_p"`
	WriteBuf  int     `json:"write_buf"`
	Simple    bool    `json:"simple,omitempty"` // skip-list "simple" writer (forces a 4096 write buffer itself)
}

func (o WOpts) options(dir string) []sstables.WriterOption {
	opts := []sstables.WriterOption{
		sstables.WriteBasePath(dir),
		sstables.WithKeyComparator(skiplist.BytesComparator{}),
		sstables.DataCompressionType(o.DataComp),
		sstables.IndexCompressionType(o.IndexComp),
	}
	if o.BloomN > 0 {
		opts = append(opts, sstables.BloomExpectedNumberOfElements(o.BloomN))
	}
	if o.BloomP > 0 {
		opts = append(opts, sstables.BloomFalsePositiveProbability(o.BloomP))
	}
	if o.WriteBuf > 0 {
		opts = append(opts, sstables.WriteBufferSizeBytes(o.WriteBuf))
	}
	return opts
}

func WOptsGen() *rapid.Generator[WOpts] {
	return rapid.Custom(func(t *rapid.T) WOpts {
		return WOpts{
			DataComp:  rapid.IntRange(0, 3).Draw(t, "dcomp"),
			IndexComp: rapid.IntRange(0, 3).Draw(t, "icomp"),
			BloomN:    rapid.SampledFrom([]uint64{1, 10, 100, 1000}).Draw(t, "bloomn"),
			BloomP:    rapid.SampledFrom([]float64{0.5, 0.1, 0.01, 0.001}).Draw(t, "bloomp"),
			WriteBuf:  rapid.SampledFrom([]int{1, 16, 64, 4096, 4 << 20}).Draw(t, "wbuf"),
			Simple:    rapid.IntRange(0, 4).Draw(t, "simple") == 0,
		}
	})
}

// Write writes the (strictly ascending) pairs into dir.
func Write(dir string, kvs []KV, o WOpts) error {
	if o.Simple {
		w, err := sstables.NewSSTableSimpleWriter(o.options(dir)...)
		if err != nil {
			return err
		}
		m := skiplist.NewSkipListMap[[]byte, []byte](skiplist.BytesComparator{})
		// insert in a scrambled but deterministic order (the skip list has to sort them)
		n := len(kvs)
		step := 1
		for _, c := range []int{7, 5, 3, 2} {
			if n > 1 && gcd(c, n) == 1 {
				step = c
				break
			}
		}
		for i := 0; i < n; i++ {
			kv := kvs[(i*step+n/2)%n]
			m.Insert(kv.K, kv.V.Bytes())
		}
		return w.WriteSkipListMap(m)
	}
	w, err := sstables.NewSSTableStreamWriter(o.options(dir)...)
	if err != nil {
		return err
	}
	if err := w.Open(); err != nil {
		return err
	}
	for i, kv := range kvs {
		if err := w.WriteNext(kv.K, kv.V.Bytes()); err != nil {
			_ = w.Close()
			return fmt.Errorf("WriteNext #%d: %w", i, err)
		}
	}
	return w.Close()
}

type ROpts struct {
	Loader     string `json:"loader"` // slice skiplist map4 map20 disk
	ReadBuf    int    `json:"read_buf"`
	SkipLoad   bool   `json:"skip_load,omitempty"`
	CheckReads bool   `json:"check_reads,omitempty"`
}

func Open(dir string, o ROpts) (sstables.SSTableReaderI, error) {
	opts := []sstables.ReadOption{sstables.ReadBasePath(dir)}
	if o.ReadBuf > 0 {
		opts = append(opts, sstables.ReadBufferSizeBytes(o.ReadBuf))
	}
	rb := o.ReadBuf
	if rb <= 0 {
		rb = 4 << 20
	}
	switch o.Loader {
	case "", "slice":
		// default loader
	case "slice-explicit":
		opts = append(opts, sstables.ReadIndexLoader(&sstables.SliceKeyIndexLoader{ReadBufferSize: rb}))
	case "skiplist":
		opts = append(opts, sstables.ReadIndexLoader(&sstables.SkipListIndexLoader{KeyComparator: skiplist.BytesComparator{}, ReadBufferSize: rb}))
	case "map4":
		opts = append(opts, sstables.ReadIndexLoader(&sstables.MapKeyIndexLoader[[4]byte]{ReadBufferSize: rb, Mapper: &sstables.Byte4KeyMapper{}}))
	case "map20":
		opts = append(opts, sstables.ReadIndexLoader(&sstables.MapKeyIndexLoader[[20]byte]{ReadBufferSize: rb, Mapper: &sstables.Byte20KeyMapper{}}))
	case "disk":
		opts = append(opts, sstables.ReadIndexLoader(&sstables.DiskIndexLoader{}))
	default:
		panic("unknown loader " + o.Loader)
	}
	if o.SkipLoad {
		opts = append(opts, sstables.SkipHashCheckOnLoad())
	}
	if o.CheckReads {
		opts = append(opts, sstables.EnableHashCheckOnReads())
	}
	return sstables.NewSSTableReader(opts...)
}

// Drain reads an iterator to the end (at most limit entries).
func Drain(it sstables.SSTableIteratorI, limit int) ([]Pair, error) {
	var out []Pair
	for {
		k, v, err := it.Next()
		if errors.Is(err, sstables.Done) {
			return out, nil
		}
		if err != nil {
			return out, err
		}
		if len(out) > limit {
			return out, fmt.Errorf("iterator yields more than %d entries", limit)
		}
		// both are copied: an iterator may hand out buffers that are only valid until its next step. nil (tombstone /
		// nil record) stays nil, empty stays empty.
		var vc []byte
		if v != nil {
			vc = append([]byte{}, v...)
		}
		out = append(out, Pair{append([]byte{}, k...), vc})
	}
}

func gcd(a, b int) int {
	for b != 0 {
		a, b = b, a%b
	}
	return a
}
