// Package rio: helpers around recordio files for the property packages.
package rio

import (
	"errors"
	"io"

	"github.com/thomasjungblut/go-sstables/recordio"
)

// WriteSimple writes recs to path and returns the offsets Write returned and the final Size().
func WriteSimple(path string, comp, wbuf int, recs [][]byte) ([]uint64, uint64, error) {
	w, err := recordio.NewFileWriter(recordio.Path(path), recordio.CompressionType(comp), recordio.BufferSizeBytes(wbuf))
	if err != nil {
		return nil, 0, err
	}
	if err := w.Open(); err != nil {
		return nil, 0, err
	}
	var offs []uint64
	for _, r := range recs {
		o, err := w.Write(r)
		if err != nil {
			_ = w.Close()
			return nil, 0, err
		}
		offs = append(offs, o)
	}
	size := w.Size()
	return offs, size, w.Close()
}

// ReadAll reads records sequentially until EOF or error. It returns the records read and the
// terminating error (nil when the end was a clean io.EOF).
func ReadAll(path string, rbuf int, limit int) ([][]byte, error) {
	r, err := recordio.NewFileReader(recordio.ReaderPath(path), recordio.ReaderBufferSizeBytes(rbuf))
	if err != nil {
		return nil, err
	}
	if err := r.Open(); err != nil {
		_ = r.Close()
		return nil, err
	}
	defer r.Close()
	var out [][]byte
	for {
		rec, err := r.ReadNext()
		if errors.Is(err, io.EOF) {
			return out, nil
		}
		if err != nil {
			return out, err
		}
		out = append(out, rec)
		if len(out) > limit {
			return out, errors.New("reader returned more records than the limit")
		}
	}
}
