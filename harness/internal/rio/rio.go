// Package rio: helpers around recordio files for the property packages.
package rio

import (
	"errors"
	"io"

	"github.com/thomasjungblut/go-sstables/recordio"
)

// WriteSimple writes recs to path and returns the offsets Write returned and the final Size().
func WriteSimple(path string, comp, wbuf int, recs [][]byte) ([]uint64, uint64, error) {
	w, err := recordio.NewFileWriter(recordio.Path(path), recordio.CompressionType(comp), recordio.BufferSizeBytes(wbuf))
	if err != nil {
		return nil, 0, err
	}
	if err := w.Open(); err != nil {
		return nil, 0, err
	}
	var offs []uint64
	for _, r := range recs {
		o, err := w.Write(r)
		if err != nil {
			_ = w.Close()
			return nil, 0, err
		}
		offs = append(offs, o)
	}
	size := w.Size()
	return offs, size, w.Close()
}

// WriteRewound writes recs, seeks back to the start of the back-th record from the end, writes tail from there and
// closes: the file must then hold recs[:len(recs)-back] followed by tail (what a writer that rolls back does).
func WriteRewound(path string, comp, wbuf int, recs [][]byte, back int, tail [][]byte) ([]uint64, uint64, error) {
	w, err := recordio.NewFileWriter(recordio.Path(path), recordio.CompressionType(comp), recordio.BufferSizeBytes(wbuf))
	if err != nil {
		return nil, 0, err
	}
	if err := w.Open(); err != nil {
		return nil, 0, err
	}
	var offs []uint64
	for _, r := range recs {
		o, err := w.Write(r)
		if err != nil {
			_ = w.Close()
			return nil, 0, err
		}
		offs = append(offs, o)
	}
	if back > 0 && back <= len(offs) {
		to := offs[len(offs)-back]
		offs = offs[:len(offs)-back]
		if err := w.Seek(to); err != nil {
			_ = w.Close()
			return nil, 0, err
		}
	}
	for _, r := range tail {
		o, err := w.Write(r)
		if err != nil {
			_ = w.Close()
			return nil, 0, err
		}
		offs = append(offs, o)
	}
	size := w.Size()
	return offs, size, w.Close()
}

// ReadAll reads records sequentially until EOF or error. It returns the records read and the
// terminating error (nil when the end was a clean io.EOF).
func ReadAll(path string, rbuf int, limit int) ([][]byte, error) {
	r, err := recordio.NewFileReader(recordio.ReaderPath(path), recordio.ReaderBufferSizeBytes(rbuf))
	if err != nil {
		return nil, err
	}
	if err := r.Open(); err != nil {
		_ = r.Close()
		return nil, err
	}
	defer r.Close()
	var out [][]byte
	for {
		rec, err := r.ReadNext()
		if errors.Is(err, io.EOF) {
			return out, nil
		}
		if err != nil {
			return out, err
		}
		out = append(out, rec)
		if len(out) > limit {
			return out, errors.New("reader returned more records than the limit")
		}
	}
}

// Header is an independent decoding of a v4 record header (marker, nil byte, three uvarints).
type Header struct {
	Len        int // bytes of the header
	Nil        bool
	USize      uint64
	CSize      uint64
	CRC        uint64
	FieldStart [5]int // start index of marker, nil flag, usize, csize, crc
}

func uvarint(b []byte) (uint64, int) {
	var x uint64
	var s uint
	for i, c := range b {
		if i == 10 {
			return 0, -1
		}
		if c < 0x80 {
			return x | uint64(c)<<s, i + 1
		}
		x |= uint64(c&0x7f) << s
		s += 7
	}
	return 0, -1
}

// ParseHeader decodes the record header at the start of b; ok=false when b does not start with one.
func ParseHeader(b []byte) (h Header, ok bool) {
	p := 0
	m, n := uvarint(b)
	if n <= 0 || m != 0x130691 {
		return h, false
	}
	h.FieldStart[0] = 0
	p += n
	if p >= len(b) {
		return h, false
	}
	h.FieldStart[1] = p
	h.Nil = b[p] == 1
	p++
	h.FieldStart[2] = p
	h.USize, n = uvarint(b[p:])
	if n <= 0 {
		return h, false
	}
	p += n
	h.FieldStart[3] = p
	h.CSize, n = uvarint(b[p:])
	if n <= 0 {
		return h, false
	}
	p += n
	h.FieldStart[4] = p
	h.CRC, n = uvarint(b[p:])
	if n <= 0 {
		return h, false
	}
	p += n
	h.Len = p
	return h, true
}
