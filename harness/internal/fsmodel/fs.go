package fsmodel

import (
	"bytes"
	"crypto/sha256"
	"encoding/binary"
	"fmt"
	"os"
	"path/filepath"
	"sort"
	"strconv"
	"strings"
)

type node struct {
	dir      bool
	children map[string]*node
	data     []byte
	sum      *[32]byte // cached content hash
}

type fdent struct {
	n     *node
	off   int64
	app   bool
	sync  bool   // opened with O_SYNC / O_DSYNC: every write is durable when it returns
	path  string // current path, relative to the root ("" = root); follows renames
	isAck bool
}

// Applied describes what an event did, for classification by the properties.
type Applied struct {
	Op      string // open create write unlink rmdir mkdir rename truncate fsync close lseek marker none
	Path    string // relative to the root
	Path2   string
	N       int
	Changed bool   // the tree changed
	Marker  string // text written to the ack file
	Fd      int
	Synced  bool // a write through a descriptor opened with O_SYNC / O_DSYNC
}

// FS is the model of the directory tree below Root.
type FS struct {
	Root    string // absolute path of the traced directory
	AckPath string
	root    *node
	fds     map[int]*fdent
	gen     int
}

func New(root, ack string) *FS {
	return &FS{Root: filepath.Clean(root), AckPath: filepath.Clean(ack), root: &node{dir: true, children: map[string]*node{}}, fds: map[int]*fdent{}}
}

// UnknownCallError means the log contains a mutating call the model does not implement: the run
// must be discarded (exit 2), never judged.
type UnknownCallError struct{ Msg string }

func (e *UnknownCallError) Error() string { return "fsmodel: " + e.Msg }

func (fs *FS) rel(abs string) (string, bool) {
	abs = filepath.Clean(abs)
	if abs == fs.Root {
		return "", true
	}
	if strings.HasPrefix(abs, fs.Root+"/") {
		return abs[len(fs.Root)+1:], true
	}
	return "", false
}

// resolve returns the parent node and final name for a (dirfd, path) pair; ok=false when outside the root.
func (fs *FS) resolve(dirfd string, path string) (rel string, ok bool, err error) {
	if strings.HasPrefix(path, "/") {
		r, ok := fs.rel(path)
		return r, ok, nil
	}
	if dirfd == "AT_FDCWD" {
		return "", false, nil // relative to the cwd: the runner is never started inside the traced directory
	}
	fd, perr := strconv.Atoi(dirfd)
	if perr != nil {
		return "", false, &UnknownCallError{"bad dirfd " + dirfd}
	}
	e, has := fs.fds[fd]
	if !has {
		return "", false, nil // directory outside the root
	}
	if !e.n.dir {
		return "", false, &UnknownCallError{"dirfd is not a directory"}
	}
	// the directory may have been renamed since it was opened: find its current path
	cur, found := fs.pathOf(e.n)
	if !found {
		return "", false, nil // unlinked directory
	}
	return filepath.Join(cur, path), true, nil
}

func (fs *FS) pathOf(target *node) (string, bool) {
	if target == fs.root {
		return "", true
	}
	var walk func(n *node, p string) (string, bool)
	walk = func(n *node, p string) (string, bool) {
		for name, c := range n.children {
			cp := filepath.Join(p, name)
			if c == target {
				return cp, true
			}
			if c.dir {
				if r, ok := walk(c, cp); ok {
					return r, true
				}
			}
		}
		return "", false
	}
	return walk(fs.root, "")
}

func (fs *FS) lookup(rel string) (parent *node, name string, n *node) {
	if rel == "" {
		return nil, "", fs.root
	}
	parts := strings.Split(rel, "/")
	cur := fs.root
	for i, p := range parts {
		if !cur.dir {
			return nil, "", nil
		}
		c := cur.children[p]
		if i == len(parts)-1 {
			return cur, p, c
		}
		if c == nil {
			return nil, "", nil
		}
		cur = c
	}
	return nil, "", nil
}

func hasFlag(flags, f string) bool {
	for _, x := range strings.Split(flags, "|") {
		if x == f {
			return true
		}
	}
	return false
}

// Apply replays one event.
func (fs *FS) Apply(ev Event) (Applied, error) {
	a := Applied{Op: "none"}
	if ev.Name == "execve" {
		// a new process image: the runner (like every Go program) opens all its files close-on-exec. The reported
		// result is not looked at: under --seccomp-bpf strace shows a bogus errno for an execve that a thread other
		// than the leader issued; a runner whose execve really failed exits with status 6 (treated as infrastructure).
		for fd := range fs.fds {
			delete(fs.fds, fd)
		}
		a.Op = "exec"
		return a, nil
	}
	if ev.Fail {
		return a, nil
	}
	if ev.Unknown {
		switch ev.Name {
		case "close", "fsync", "fdatasync", "lseek", "fcntl":
			return a, nil
		}
		if fs.touchesRoot(ev) {
			return a, &UnknownCallError{fmt.Sprintf("the process exited inside %s on the traced directory: its effect on the tree is unknown", ev.Name)}
		}
		return a, nil // e.g. a log line being written to stderr when the process went away
	}
	arg := func(i int) string {
		if i < len(ev.Args) {
			return ev.Args[i]
		}
		return ""
	}
	switch ev.Name {
	case "openat", "open", "creat":
		var dirfd, pathArg, flags string
		switch ev.Name {
		case "openat":
			dirfd, pathArg, flags = arg(0), arg(1), arg(2)
		case "open":
			dirfd, pathArg, flags = "AT_FDCWD", arg(0), arg(1)
		default:
			dirfd, pathArg, flags = "AT_FDCWD", arg(0), "O_WRONLY|O_CREAT|O_TRUNC"
		}
		pb, err := Str(pathArg)
		if err != nil {
			return a, &UnknownCallError{err.Error()}
		}
		fd := int(ev.Ret)
		delete(fs.fds, fd)
		if filepath.Clean(string(pb)) == fs.AckPath {
			fs.fds[fd] = &fdent{isAck: true}
			return a, nil
		}
		rel, ok, err := fs.resolve(dirfd, string(pb))
		if err != nil {
			return a, err
		}
		if !ok {
			return a, nil
		}
		parent, name, n := fs.lookup(rel)
		a.Op, a.Path, a.Fd = "open", rel, fd
		if n == nil {
			if !hasFlag(flags, "O_CREAT") || parent == nil {
				return a, &UnknownCallError{fmt.Sprintf("open of %q succeeded but the model has no such file", rel)}
			}
			n = &node{}
			parent.children[name] = n
			a.Op, a.Changed = "create", true
		} else if hasFlag(flags, "O_TRUNC") && !n.dir && len(n.data) > 0 {
			n.data, n.sum = nil, nil
			a.Changed = true
			a.Op = "truncate"
		}
		fs.fds[fd] = &fdent{n: n, app: hasFlag(flags, "O_APPEND"), sync: hasFlag(flags, "O_SYNC") || hasFlag(flags, "O_DSYNC"), path: rel}
		return a, nil
	case "close":
		fd, _ := strconv.Atoi(arg(0))
		if e, ok := fs.fds[fd]; ok {
			a.Op, a.Path, a.Fd = "close", e.path, fd
			delete(fs.fds, fd)
		}
		return a, nil
	case "write", "pwrite64", "writev", "pwritev", "pwritev2":
		fd, _ := strconv.Atoi(arg(0))
		e, ok := fs.fds[fd]
		if !ok {
			return a, nil
		}
		var data []byte
		var err error
		vectored := ev.Name != "write" && ev.Name != "pwrite64"
		if vectored {
			data, err = iovData(arg(1))
		} else {
			data, err = Str(arg(1))
		}
		if err != nil {
			return a, &UnknownCallError{err.Error()}
		}
		if int64(len(data)) < ev.Ret {
			return a, &UnknownCallError{"write data shorter than the return value"}
		}
		data = data[:ev.Ret]
		if e.isAck {
			a.Op, a.Marker = "marker", string(data)
			return a, nil
		}
		off := e.off
		positioned := false
		if ev.Name == "pwrite64" || ev.Name == "pwritev" || ev.Name == "pwritev2" {
			var perr error
			off, perr = strconv.ParseInt(strings.TrimSpace(arg(3)), 0, 64)
			if perr != nil {
				return a, &UnknownCallError{ev.Name + " with unreadable offset"}
			}
			positioned = true
			if off == -1 && ev.Name == "pwritev2" { // "use and update the file position"
				off, positioned = e.off, false
			}
		}
		if !positioned && e.app {
			off = int64(len(e.n.data))
		}
		if need := off + int64(len(data)); need > int64(len(e.n.data)) {
			e.n.data = append(e.n.data, make([]byte, need-int64(len(e.n.data)))...)
		}
		copy(e.n.data[off:], data)
		e.n.sum = nil
		if !positioned {
			e.off = off + int64(len(data))
		}
		a.Op, a.Path, a.N, a.Changed, a.Fd, a.Synced = "write", e.path, len(data), len(data) > 0, fd, e.sync
		return a, nil
	case "lseek":
		fd, _ := strconv.Atoi(arg(0))
		if e, ok := fs.fds[fd]; ok && !e.isAck {
			e.off = ev.Ret
			a.Op, a.Path, a.Fd = "lseek", e.path, fd
		}
		return a, nil
	case "ftruncate":
		fd, _ := strconv.Atoi(arg(0))
		if e, ok := fs.fds[fd]; ok && !e.isAck {
			n, _ := strconv.ParseInt(arg(1), 0, 64)
			if n < int64(len(e.n.data)) {
				e.n.data = e.n.data[:n]
			} else {
				e.n.data = append(e.n.data, make([]byte, n-int64(len(e.n.data)))...)
			}
			e.n.sum = nil
			a.Op, a.Path, a.Changed, a.Fd = "truncate", e.path, true, fd
		}
		return a, nil
	case "fsync", "fdatasync":
		fd, _ := strconv.Atoi(arg(0))
		if e, ok := fs.fds[fd]; ok && !e.isAck {
			a.Op, a.Path, a.Fd = "fsync", e.path, fd
		}
		return a, nil
	case "mkdirat", "mkdir":
		dirfd, pathArg := "AT_FDCWD", arg(0)
		if ev.Name == "mkdirat" {
			dirfd, pathArg = arg(0), arg(1)
		}
		pb, err := Str(pathArg)
		if err != nil {
			return a, &UnknownCallError{err.Error()}
		}
		rel, ok, err := fs.resolve(dirfd, string(pb))
		if err != nil || !ok {
			return a, err
		}
		parent, name, n := fs.lookup(rel)
		if parent == nil || n != nil {
			return a, &UnknownCallError{fmt.Sprintf("mkdir %q succeeded but the model disagrees", rel)}
		}
		parent.children[name] = &node{dir: true, children: map[string]*node{}}
		a.Op, a.Path, a.Changed = "mkdir", rel, true
		return a, nil
	case "unlinkat", "unlink", "rmdir":
		dirfd, pathArg, flags := "AT_FDCWD", arg(0), ""
		if ev.Name == "unlinkat" {
			dirfd, pathArg, flags = arg(0), arg(1), arg(2)
		}
		pb, err := Str(pathArg)
		if err != nil {
			return a, &UnknownCallError{err.Error()}
		}
		rel, ok, err := fs.resolve(dirfd, string(pb))
		if err != nil || !ok {
			return a, err
		}
		parent, name, n := fs.lookup(rel)
		if parent == nil || n == nil {
			return a, &UnknownCallError{fmt.Sprintf("unlink %q succeeded but the model has no such entry", rel)}
		}
		delete(parent.children, name)
		a.Op, a.Path, a.Changed = "unlink", rel, true
		if ev.Name == "rmdir" || hasFlag(flags, "AT_REMOVEDIR") {
			a.Op = "rmdir"
		}
		return a, nil
	case "renameat", "renameat2", "rename":
		od, op, nd, np := "AT_FDCWD", arg(0), "AT_FDCWD", arg(1)
		if ev.Name != "rename" {
			od, op, nd, np = arg(0), arg(1), arg(2), arg(3)
		}
		ob, err1 := Str(op)
		nb, err2 := Str(np)
		if err1 != nil || err2 != nil {
			return a, &UnknownCallError{"rename arguments"}
		}
		orel, ook, err := fs.resolve(od, string(ob))
		if err != nil {
			return a, err
		}
		nrel, nok, err := fs.resolve(nd, string(nb))
		if err != nil {
			return a, err
		}
		if !ook && !nok {
			return a, nil
		}
		if ook != nok {
			return a, &UnknownCallError{"rename across the root boundary"}
		}
		opar, oname, on := fs.lookup(orel)
		npar, nname, _ := fs.lookup(nrel)
		if opar == nil || on == nil || npar == nil {
			return a, &UnknownCallError{fmt.Sprintf("rename %q -> %q succeeded but the model disagrees", orel, nrel)}
		}
		delete(opar.children, oname)
		npar.children[nname] = on
		// open descriptors follow the file: later writes and fsyncs are reported under its current name
		for _, e := range fs.fds {
			if e.isAck {
				continue
			}
			if e.path == orel {
				e.path = nrel
			} else if strings.HasPrefix(e.path, orel+"/") {
				e.path = nrel + e.path[len(orel):]
			}
		}
		a.Op, a.Path, a.Path2, a.Changed = "rename", orel, nrel, true
		return a, nil
	case "fcntl":
		if strings.Contains(arg(1), "F_DUPFD") {
			fd, _ := strconv.Atoi(arg(0))
			if _, ok := fs.fds[fd]; ok {
				return a, &UnknownCallError{"F_DUPFD on a tracked descriptor"}
			}
		}
		return a, nil
	case "dup", "dup2", "dup3":
		fd, _ := strconv.Atoi(arg(0))
		if _, ok := fs.fds[fd]; ok {
			return a, &UnknownCallError{ev.Name + " on a tracked descriptor"}
		}
		return a, nil
	case "link", "linkat":
		od, op, nd, np := "AT_FDCWD", arg(0), "AT_FDCWD", arg(1)
		if ev.Name == "linkat" {
			od, op, nd, np = arg(0), arg(1), arg(2), arg(3)
		}
		ob, err1 := Str(op)
		nb, err2 := Str(np)
		if err1 != nil || err2 != nil {
			return a, &UnknownCallError{"link arguments"}
		}
		orel, ook, err := fs.resolve(od, string(ob))
		if err != nil {
			return a, err
		}
		nrel, nok, err := fs.resolve(nd, string(nb))
		if err != nil {
			return a, err
		}
		if !ook && !nok {
			return a, nil
		}
		if ook != nok {
			return a, &UnknownCallError{"hard link across the boundary of the traced directory"}
		}
		_, _, on := fs.lookup(orel)
		npar, nname, nn := fs.lookup(nrel)
		if on == nil || on.dir || npar == nil || nn != nil {
			return a, &UnknownCallError{fmt.Sprintf("link %q -> %q succeeded but the model disagrees", orel, nrel)}
		}
		npar.children[nname] = on // both names are the same file from now on
		a.Op, a.Path, a.Path2, a.Changed = "link", orel, nrel, true
		return a, nil
	case "truncate":
		pb, err := Str(arg(0))
		if err != nil {
			return a, &UnknownCallError{err.Error()}
		}
		rel, ok, err := fs.resolve("AT_FDCWD", string(pb))
		if err != nil || !ok {
			return a, err
		}
		_, _, n := fs.lookup(rel)
		if n == nil || n.dir {
			return a, &UnknownCallError{fmt.Sprintf("truncate %q succeeded but the model has no such file", rel)}
		}
		sz, perr := strconv.ParseInt(strings.TrimSpace(arg(1)), 0, 64)
		if perr != nil {
			return a, &UnknownCallError{"truncate with unreadable length"}
		}
		if sz < int64(len(n.data)) {
			n.data = n.data[:sz]
		} else {
			n.data = append(n.data, make([]byte, sz-int64(len(n.data)))...)
		}
		n.sum = nil
		a.Op, a.Path, a.Changed = "truncate", rel, true
		return a, nil
	case "mmap":
		// a writable shared mapping of a tracked file changes it without further system calls
		fd, perr := strconv.Atoi(strings.TrimSpace(arg(4)))
		if perr == nil {
			if e, ok := fs.fds[fd]; ok && !e.isAck && strings.Contains(arg(2), "PROT_WRITE") && strings.Contains(arg(3), "MAP_SHARED") {
				return a, &UnknownCallError{"writable shared mapping of a tracked file"}
			}
		}
		return a, nil
	case "fallocate":
		fd, _ := strconv.Atoi(arg(0))
		e, ok := fs.fds[fd]
		if !ok || e.isAck {
			return a, nil
		}
		mode := strings.TrimSpace(arg(1))
		switch mode {
		case "FALLOC_FL_KEEP_SIZE":
			// blocks reserved beyond the end: neither size nor content change
			a.Op, a.Path, a.Fd = "fallocate", e.path, fd
			return a, nil
		case "0":
			off, err1 := strconv.ParseInt(strings.TrimSpace(arg(2)), 0, 64)
			ln, err2 := strconv.ParseInt(strings.TrimSpace(arg(3)), 0, 64)
			if err1 != nil || err2 != nil {
				return a, &UnknownCallError{"fallocate with unreadable arguments"}
			}
			a.Op, a.Path, a.Fd = "fallocate", e.path, fd
			if need := off + ln; need > int64(len(e.n.data)) {
				e.n.data = append(e.n.data, make([]byte, need-int64(len(e.n.data)))...)
				e.n.sum = nil
				a.Changed = true
			}
			return a, nil
		}
		return a, &UnknownCallError{"fallocate mode " + mode + " on a tracked descriptor"}
	case "getdents64", "read", "pread64":
		return a, nil
	}
	// any other traced call (symlinkat, copy_file_range, sendfile, splice, openat2, io_uring_*, ...): the model does not
	// know what it does, so a call that names a tracked descriptor or a path below the root makes the trace unusable
	if fs.touchesRoot(ev) {
		return a, &UnknownCallError{ev.Name + " on the traced directory is not modelled"}
	}
	for _, ar := range ev.Args {
		if fd, err := strconv.Atoi(strings.TrimSpace(ar)); err == nil {
			if e, ok := fs.fds[fd]; ok && !e.isAck {
				return a, &UnknownCallError{ev.Name + " on a tracked descriptor is not modelled"}
			}
		}
	}
	return a, nil
}

// iovData concatenates the buffers of a printed iovec array: [{iov_base="...", iov_len=5}, ...].
func iovData(arg string) ([]byte, error) {
	if strings.Contains(arg, "...") {
		return nil, fmt.Errorf("iovec array was abbreviated by strace")
	}
	var out []byte
	rest := arg
	for {
		i := strings.Index(rest, "iov_base=")
		if i < 0 {
			return out, nil
		}
		rest = rest[i+len("iov_base="):]
		if !strings.HasPrefix(rest, "\"") {
			return nil, fmt.Errorf("iovec base is not a string: %.40s", rest)
		}
		end := strings.IndexByte(rest[1:], '"')
		if end < 0 {
			return nil, fmt.Errorf("unterminated iovec string")
		}
		b, err := Str(rest[:end+2])
		if err != nil {
			return nil, err
		}
		out = append(out, b...)
		rest = rest[end+2:]
	}
}

// touchesRoot reports whether a call whose outcome is unknown could have changed the tree below Root (or the ack file).
func (fs *FS) touchesRoot(ev Event) bool {
	for i, a := range ev.Args {
		a = strings.TrimSpace(a)
		if strings.HasPrefix(a, "\"") {
			if b, err := Str(a); err == nil {
				p := string(b)
				if strings.HasPrefix(p, "/") {
					if _, ok := fs.rel(p); ok || filepath.Clean(p) == fs.AckPath {
						return true
					}
				}
			} else if i > 0 {
				continue // data argument that was cut off by the exit
			}
			continue
		}
		if fd, err := strconv.Atoi(a); err == nil && i == 0 {
			if _, ok := fs.fds[fd]; ok {
				return true
			}
		}
		if fd, err := strconv.Atoi(a); err == nil && i == 2 && (ev.Name == "renameat" || ev.Name == "renameat2") {
			if _, ok := fs.fds[fd]; ok {
				return true
			}
		}
	}
	return false
}

type entry struct {
	path string
	n    *node
}

func (fs *FS) entries() []entry {
	var out []entry
	var walk func(n *node, p string)
	walk = func(n *node, p string) {
		names := make([]string, 0, len(n.children))
		for name := range n.children {
			names = append(names, name)
		}
		sort.Strings(names)
		for _, name := range names {
			c := n.children[name]
			cp := filepath.Join(p, name)
			out = append(out, entry{cp, c})
			if c.dir {
				walk(c, cp)
			}
		}
	}
	walk(fs.root, "")
	return out
}

// Hash identifies the current image (names, kinds and contents).
func (fs *FS) Hash() [32]byte {
	h := sha256.New()
	var lb [8]byte
	for _, e := range fs.entries() {
		binary.LittleEndian.PutUint64(lb[:], uint64(len(e.path)))
		h.Write(lb[:])
		h.Write([]byte(e.path))
		if e.n.dir {
			h.Write([]byte{'d'})
			continue
		}
		if e.n.sum == nil {
			s := sha256.Sum256(e.n.data)
			e.n.sum = &s
		}
		h.Write([]byte{'f'})
		h.Write(e.n.sum[:])
	}
	var r [32]byte
	copy(r[:], h.Sum(nil))
	return r
}

// Materialize writes the current image into dir (which must exist and be empty).
func (fs *FS) Materialize(dir string) error {
	for _, e := range fs.entries() {
		p := filepath.Join(dir, e.path)
		if e.n.dir {
			if err := os.Mkdir(p, 0o700); err != nil {
				return err
			}
			continue
		}
		if err := os.WriteFile(p, e.n.data, 0o644); err != nil {
			return err
		}
	}
	return nil
}

// Listing returns "path size" lines (directories end in "/"), for messages and fingerprints.
func (fs *FS) Listing() []string {
	var out []string
	for _, e := range fs.entries() {
		if e.n.dir {
			out = append(out, e.path+"/")
		} else {
			out = append(out, fmt.Sprintf("%s %d", e.path, len(e.n.data)))
		}
	}
	return out
}

// File returns the content of a file of the image.
func (fs *FS) File(rel string) ([]byte, bool) {
	_, _, n := fs.lookup(rel)
	if n == nil || n.dir {
		return nil, false
	}
	return n.data, true
}

// EqualsDir compares the image with a real directory (the self-check of the emulator).
func (fs *FS) EqualsDir(dir string) error {
	want := map[string]*node{}
	for _, e := range fs.entries() {
		want[e.path] = e.n
	}
	seen := 0
	err := filepath.Walk(dir, func(p string, info os.FileInfo, err error) error {
		if err != nil {
			return err
		}
		rel, _ := filepath.Rel(dir, p)
		if rel == "." {
			return nil
		}
		n, ok := want[rel]
		if !ok {
			return fmt.Errorf("real directory has %q, the model does not", rel)
		}
		seen++
		if info.IsDir() != n.dir {
			return fmt.Errorf("%q: kind differs", rel)
		}
		if !n.dir {
			b, err := os.ReadFile(p)
			if err != nil {
				return err
			}
			if !bytes.Equal(b, n.data) {
				return fmt.Errorf("%q: content differs (real %d bytes, model %d bytes)", rel, len(b), len(n.data))
			}
		}
		return nil
	})
	if err != nil {
		return err
	}
	if seen != len(want) {
		return fmt.Errorf("the model has %d entries, the real directory %d", len(want), seen)
	}
	return nil
}

// LoadDir fills the (empty) model with the content of a real directory: the starting image of a nested run.
func (fs *FS) LoadDir(dir string) error {
	return filepath.Walk(dir, func(p string, info os.FileInfo, err error) error {
		if err != nil {
			return err
		}
		rel, _ := filepath.Rel(dir, p)
		if rel == "." {
			return nil
		}
		parent, name, _ := fs.lookup(rel)
		if parent == nil {
			return fmt.Errorf("LoadDir: no parent for %q", rel)
		}
		if info.IsDir() {
			parent.children[name] = &node{dir: true, children: map[string]*node{}}
			return nil
		}
		b, err := os.ReadFile(p)
		if err != nil {
			return err
		}
		parent.children[name] = &node{data: b}
		return nil
	})
}

// WithoutEntries temporarily removes the given entries (relative paths), calls f, and restores them.
func (fs *FS) WithoutEntries(rels []string, f func() error) error {
	type saved struct {
		parent *node
		name   string
		n      *node
	}
	var sv []saved
	for _, r := range rels {
		parent, name, n := fs.lookup(r)
		if parent == nil || n == nil {
			continue
		}
		sv = append(sv, saved{parent, name, n})
		delete(parent.children, name)
	}
	err := f()
	for _, s := range sv {
		s.parent.children[s.name] = s.n
	}
	return err
}

// Exists reports whether the image has an entry at rel.
func (fs *FS) Exists(rel string) bool {
	_, _, n := fs.lookup(rel)
	return n != nil
}
