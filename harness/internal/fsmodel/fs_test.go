package fsmodel

import (
	"os"
	"testing"
)

// TestSelfCheck replays a trace given by FSMODEL_TRACE against FSMODEL_DIR (developer aid).
func TestSelfCheck(t *testing.T) {
	tr, dir, ack := os.Getenv("FSMODEL_TRACE"), os.Getenv("FSMODEL_DIR"), os.Getenv("FSMODEL_ACK")
	if tr == "" {
		t.Skip("no trace given")
	}
	f, err := os.Open(tr)
	if err != nil {
		t.Fatal(err)
	}
	evs, err := ParseLog(f)
	if err != nil {
		t.Fatal(err)
	}
	fs := New(dir, ack)
	images := map[[32]byte]bool{}
	changed, markers := 0, 0
	for _, ev := range evs {
		a, err := fs.Apply(ev)
		if err != nil {
			t.Fatalf("line %d: %v", ev.Line, err)
		}
		if a.Changed {
			changed++
			images[fs.Hash()] = true
		}
		if a.Op == "marker" {
			markers++
		}
	}
	if err := fs.EqualsDir(dir); err != nil {
		t.Fatal(err)
	}
	t.Logf("%d events, %d mutating, %d distinct images, %d markers", len(evs), changed, len(images), markers)
	for _, l := range fs.Listing() {
		t.Log(l)
	}
}
