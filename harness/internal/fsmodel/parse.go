// Package fsmodel replays a strace log of a child process on an in-memory, inode based file system.
// After every completed system call the tree is a "crash image": what kill -9 at that instant leaves
// behind on a file system that retains every completed system call.
package fsmodel

import (
	"bufio"
	"fmt"
	"io"
	"strconv"
	"strings"
)

// Event is one completed system call, in completion order.
type Event struct {
	Seq  int
	Pid  int
	Name string
	Args []string // raw argument texts, strings still quoted/escaped
	Ret  int64
	Fail bool // returned -1
	// Unknown: the process exited inside the call ("= ?"), its effect is not known
	Unknown bool
	Line    int
}

// Str decodes a quoted -xx string argument.
func Str(arg string) ([]byte, error) {
	arg = strings.TrimSpace(arg)
	if len(arg) < 2 || arg[0] != '"' {
		return nil, fmt.Errorf("not a string argument: %.40s", arg)
	}
	end := strings.LastIndexByte(arg, '"')
	if end == 0 {
		return nil, fmt.Errorf("unterminated string: %.40s", arg)
	}
	if strings.HasPrefix(arg[end+1:], "...") {
		return nil, fmt.Errorf("string argument was truncated by strace (-s too small)")
	}
	body := arg[1:end]
	out := make([]byte, 0, len(body)/4)
	for i := 0; i < len(body); {
		if body[i] == '\\' && i+3 < len(body) && body[i+1] == 'x' {
			v, err := strconv.ParseUint(body[i+2:i+4], 16, 8)
			if err != nil {
				return nil, err
			}
			out = append(out, byte(v))
			i += 4
			continue
		}
		return nil, fmt.Errorf("unexpected character in -xx string at %d: %.20s", i, body[i:])
	}
	return out, nil
}

func splitArgs(s string) []string {
	var out []string
	depth, inq, start := 0, false, 0
	for i := 0; i < len(s); i++ {
		c := s[i]
		switch {
		case c == '"':
			inq = !inq
		case inq:
		case c == '(' || c == '[' || c == '{':
			depth++
		case c == ')' || c == ']' || c == '}':
			depth--
		case c == ',' && depth == 0:
			out = append(out, strings.TrimSpace(s[start:i]))
			start = i + 1
		}
	}
	if strings.TrimSpace(s[start:]) != "" {
		out = append(out, strings.TrimSpace(s[start:]))
	}
	return out
}

// ParseLog parses `strace -f -qq -xx` output. Calls that were interrupted by another thread's output
// (<unfinished ...> / <... resumed>) are merged and placed at the position of their completion.
func ParseLog(r io.Reader) ([]Event, error) {
	sc := bufio.NewScanner(r)
	sc.Buffer(make([]byte, 1<<20), 1<<30)
	pending := map[int]string{} // pid -> "name(args-so-far"
	var evs []Event
	ln := 0
	for sc.Scan() {
		ln++
		line := sc.Text()
		if line == "" {
			continue
		}
		sp := strings.IndexByte(line, ' ')
		if sp <= 0 {
			return nil, fmt.Errorf("line %d: no pid: %.80s", ln, line)
		}
		pid, err := strconv.Atoi(line[:sp])
		if err != nil {
			return nil, fmt.Errorf("line %d: bad pid: %.80s", ln, line)
		}
		rest := strings.TrimLeft(line[sp:], " ")
		if strings.HasPrefix(rest, "+++") || strings.HasPrefix(rest, "---") {
			continue // exit / signal notes
		}
		if strings.HasPrefix(rest, "???(") {
			continue // a thread that went away inside a call strace never saw the entry of (none of the traced ones)
		}
		if strings.HasSuffix(rest, "<detached ...>") {
			// the tracer let go of a thread inside a traced call: its outcome is unknown
			if op := strings.IndexByte(rest, '('); op > 0 {
				evs = append(evs, Event{Seq: len(evs), Pid: pid, Name: rest[:op], Args: splitArgs(strings.TrimSuffix(rest[op+1:], "<detached ...>")), Unknown: true, Line: ln})
			}
			continue
		}
		if i := strings.LastIndex(rest, "<pid changed to "); i >= 0 && strings.HasSuffix(rest, " ...>") {
			// execve called by a thread that is not the leader: the call is reported as finished under the leader's id
			np, err := strconv.Atoi(strings.TrimSuffix(rest[i+len("<pid changed to "):], " ...>"))
			if err != nil {
				return nil, fmt.Errorf("line %d: malformed pid change: %.120s", ln, rest)
			}
			pending[np] = rest[:i]
			continue
		}
		if strings.HasSuffix(rest, "<unfinished ...>") {
			head := strings.TrimSuffix(rest, "<unfinished ...>")
			pending[pid] = head
			// close releases the descriptor number when the call is entered: another thread's open can be reported
			// with the same number before the close is reported as finished. A close therefore takes effect at its
			// entry position (it practically never fails on regular files).
			if strings.HasPrefix(head, "close(") {
				evs = append(evs, Event{Seq: len(evs), Pid: pid, Name: "close", Args: splitArgs(strings.TrimSuffix(strings.TrimSpace(head[len("close("):]), ")")), Line: ln})
				pending[pid] = "\x00closed"
			}
			continue
		}
		if strings.HasPrefix(rest, "<... ???") {
			continue // the end of a call strace never saw the beginning of
		}
		if strings.HasPrefix(rest, "<... ") {
			i := strings.Index(rest, " resumed>")
			if i < 0 {
				return nil, fmt.Errorf("line %d: malformed resumed line: %.80s", ln, line)
			}
			head, ok := pending[pid]
			if !ok && strings.HasPrefix(rest, "<... execve resumed>") {
				// execve entered by another thread, finished under the leader's id
				for op, hd := range pending {
					if strings.HasPrefix(hd, "execve(") {
						head, ok = hd, true
						delete(pending, op)
						break
					}
				}
			}
			if !ok {
				return nil, fmt.Errorf("line %d: resumed without unfinished: %.80s", ln, line)
			}
			delete(pending, pid)
			if head == "\x00closed" {
				continue // already applied at its entry
			}
			rest = head + rest[i+len(" resumed>"):]
		}
		op := strings.IndexByte(rest, '(')
		eq := strings.LastIndex(rest, " = ")
		if op <= 0 || eq < 0 {
			return nil, fmt.Errorf("line %d: cannot parse: %.120s", ln, rest)
		}
		cp := strings.LastIndexByte(rest[:eq], ')')
		if cp < op {
			return nil, fmt.Errorf("line %d: cannot find closing parenthesis: %.120s", ln, rest)
		}
		ev := Event{Seq: len(evs), Pid: pid, Name: rest[:op], Args: splitArgs(rest[op+1 : cp]), Line: ln}
		rv := strings.Fields(rest[eq+3:])
		if len(rv) == 0 {
			return nil, fmt.Errorf("line %d: no return value", ln)
		}
		if rv[0] == "?" {
			// the process exited while this call was in progress: whether it took effect is unknown
			ev.Unknown = true
			evs = append(evs, ev)
			continue
		}
		v, err := strconv.ParseInt(rv[0], 0, 64)
		if err != nil {
			return nil, fmt.Errorf("line %d: bad return value %q", ln, rv[0])
		}
		ev.Ret = v
		ev.Fail = v == -1
		evs = append(evs, ev)
	}
	return evs, sc.Err()
}
