// Package sdb: shared pieces for driving simpledb from generated programs.
package sdb

import (
	"fmt"
	"io"
	"log"
	"time"

	"github.com/thomasjungblut/go-sstables/simpledb"
	"pgregory.net/rapid"
	"verif/internal/gen"
)

func init() {
	// simpledb logs every flush and compaction
	log.SetOutput(io.Discard)
}

type Opts struct {
	MemLimit  uint64  `json:"mem_limit"`
	Ticker    bool    `json:"ticker,omitempty"` // real compaction ticker (1 ms); otherwise compactions only through the hook
	Threshold int     `json:"threshold"`
	MaxSize   uint64  `json:"max_size"`
	Ratio     float32 `json:"ratio"`
	WBuf      uint64  `json:"wbuf"`
	RBuf      uint64  `json:"rbuf"`
	Async     bool    `json:"async,omitempty"`
}

func (o Opts) Options() []simpledb.ExtraOption {
	opts := []simpledb.ExtraOption{
		simpledb.MemstoreSizeBytes(o.MemLimit),
		simpledb.CompactionFileThreshold(o.Threshold),
		simpledb.CompactionMaxSizeBytes(o.MaxSize),
		simpledb.CompactionRatio(o.Ratio),
		simpledb.WriteBufferSizeBytes(o.WBuf),
		simpledb.ReadBufferSizeBytes(o.RBuf),
	}
	if o.Ticker {
		opts = append(opts, simpledb.CompactionRunInterval(time.Millisecond))
	} else {
		opts = append(opts, simpledb.DisableCompactions())
	}
	if o.Async {
		opts = append(opts, simpledb.EnableAsyncWAL())
	}
	return opts
}

func Open(dir string, o Opts) (*simpledb.DB, error) {
	db, err := simpledb.NewSimpleDB(dir, o.Options()...)
	if err != nil {
		return nil, fmt.Errorf("NewSimpleDB: %w", err)
	}
	if err := db.Open(); err != nil {
		return nil, fmt.Errorf("Open: %w", err)
	}
	return db, nil
}

func OptsGen(allowTicker bool) *rapid.Generator[Opts] {
	return rapid.Custom(func(t *rapid.T) Opts {
		o := Opts{
			MemLimit:  rapid.SampledFrom([]uint64{1, 16, 64, 256, 1024, 4096, 1 << 20}).Draw(t, "memlimit"),
			Threshold: rapid.IntRange(0, 4).Draw(t, "threshold"),
			MaxSize:   rapid.SampledFrom([]uint64{1, 150, 400, 1000, 4000, 1 << 40}).Draw(t, "maxsize"),
			Ratio:     rapid.SampledFrom([]float32{0, 0.2, 0.5, 1}).Draw(t, "ratio"),
			WBuf:      rapid.SampledFrom([]uint64{16, 64, 64, 4096, 4096, 65536, 4 << 20}).Draw(t, "wbuf"),
			RBuf:      rapid.SampledFrom([]uint64{16, 64, 64, 4096, 4096, 65536, 4 << 20}).Draw(t, "rbuf"),
		}
		if allowTicker {
			o.Ticker = rapid.IntRange(0, 3).Draw(t, "ticker") == 0
		}
		return o
	})
}

// Universe generates 6..12 distinct non-empty keys with overlapping prefixes and adversarial bytes.
func Universe() *rapid.Generator[[][]byte] {
	return rapid.Custom(func(t *rapid.T) [][]byte {
		n := rapid.IntRange(4, 12).Draw(t, "nkeys")
		var ks [][]byte
		for len(ks) < n {
			ks = append(ks, gen.KeyGen(false, 300).Draw(t, "key"))
			ks = gen.SortedDistinct(ks)
			if len(ks) >= n {
				break
			}
			// prefix chains: extend an existing key
			if rapid.Bool().Draw(t, "chain") {
				base := ks[rapid.IntRange(0, len(ks)-1).Draw(t, "base")]
				ks = append(ks, append(append([]byte{}, base...), rapid.SampledFrom([]byte{0x00, 'a', 0xff}).Draw(t, "ext")))
				ks = gen.SortedDistinct(ks)
			}
		}
		return ks
	})
}

// Value builds the value of the idx-th write of a program: distinguishable from every other write.
func Value(idx int, size int) []byte {
	tag := []byte(fmt.Sprintf("%d:", idx))
	if size <= len(tag) {
		return tag
	}
	return append(tag, gen.Expand(uint64(idx), size-len(tag))...)
}
