// Package crash is the E-crash engine: it runs a program in a child process under strace, replays
// the system-call log on the inode model and hands every boundary (crash image + which operations
// had been acknowledged) to a property-specific judge.
package crash

import (
	"bytes"
	"crypto/sha256"
	"encoding/hex"
	"encoding/json"
	"fmt"
	"os"
	"os/exec"
	"path/filepath"
	"strconv"
	"strings"
	"syscall"
	"time"

	"verif/internal/fsmodel"
	"verif/internal/prog"
)

const traceSet = "openat,open,creat,write,pwrite64,lseek,close,dup,dup2,dup3,fcntl,renameat,renameat2,rename,unlinkat,unlink,rmdir,mkdirat,mkdir,ftruncate,fallocate,fsync,fdatasync,getdents64,execve,writev,pwritev,pwritev2,link,linkat,truncate,symlink,symlinkat,copy_file_range,sendfile,splice,openat2,mmap,io_uring_setup"

// InfraError marks a problem of the machinery (strace missing, emulator self-check failed): exit 2, never a violation.
type InfraError struct{ Msg string }

func (e *InfraError) Error() string { return "crash engine: " + e.Msg }
func (e *InfraError) IsInfra() bool { return true }

type Trace struct {
	Program *prog.Program
	Root    string // directory the child worked in (as recorded in the log)
	Ack     string
	Events  []fsmodel.Event
	LogPath string
	Exit    int
	Stderr  string
	// OnEvent, when set, sees every applied event (also the ones that change nothing, e.g. fsync)
	OnEvent func(a fsmodel.Applied, ev fsmodel.Event, st *OpState)
}

func runnerPath() string {
	b := os.Getenv("VERIF_BUILD")
	if b == "" {
		b = "/verif/.build"
	}
	return filepath.Join(b, "runner")
}

// Run executes p under strace inside work (a scratch directory) and parses the log. The child's
// final directory is compared with the emulated final image (self-check).
func Run(p *prog.Program, work string, maxStr int, preload func(root string) error) (*Trace, error) {
	root := filepath.Join(work, "db")
	if err := os.MkdirAll(root, 0o755); err != nil {
		return nil, err
	}
	var pre *fsmodel.FS
	if preload != nil {
		if err := preload(root); err != nil {
			return nil, err
		}
	}
	_ = pre
	pj, _ := json.Marshal(p)
	pfile := filepath.Join(work, "program.json")
	if err := os.WriteFile(pfile, pj, 0o644); err != nil {
		return nil, err
	}
	ack := filepath.Join(work, "ack")
	logp := filepath.Join(work, "trace.log")
	if maxStr <= 0 {
		maxStr = 1 << 20
	}
	cmd := exec.Command("strace", "-f", "-qq", "-xx", "-s", strconv.Itoa(maxStr), "--seccomp-bpf", "-e", "trace="+traceSet, "-o", logp,
		runnerPath(), pfile, root, ack)
	cmd.Dir = work
	cmd.SysProcAttr = &syscall.SysProcAttr{Setpgid: true} // tracer and child die together (a killed tracer detaches its child)
	var stderr bytes.Buffer
	cmd.Stderr = &stderr
	cmd.Stdout = &stderr
	done := make(chan error, 1)
	if err := cmd.Start(); err != nil {
		return nil, &InfraError{"cannot start strace: " + err.Error()}
	}
	go func() { done <- cmd.Wait() }()
	var werr error
	select {
	case werr = <-done:
	case <-time.After(120 * time.Second):
		_ = syscall.Kill(-cmd.Process.Pid, syscall.SIGKILL)
		<-done
		return nil, &InfraError{"traced child did not finish within 120 s"}
	}
	t := &Trace{Program: p, Root: root, Ack: ack, LogPath: logp, Stderr: stderr.String()}
	if werr != nil {
		if ee, ok := werr.(*exec.ExitError); ok {
			t.Exit = ee.ExitCode()
		} else {
			return nil, &InfraError{"strace failed: " + werr.Error()}
		}
	}
	// the tracer itself failed (seen under load: "strace: ptrace(PTRACE_LISTEN,...): Input/output error", exit status 1):
	// neither the exit status nor the log say anything about the code under test
	for _, ln := range strings.Split(t.Stderr, "\n") {
		if strings.HasPrefix(ln, "strace: ") && !strings.Contains(ln, "exiting, ptrace_syscall_info") { // (that one is a notice about a thread that went away inside a call, e.g. at execve)
			return nil, &InfraError{"the tracer failed: " + ln}
		}
	}
	if t.Exit == 6 {
		return nil, &InfraError{"the runner could not restart itself: " + t.Stderr}
	}
	f, err := os.Open(logp)
	if err != nil {
		return nil, &InfraError{"no strace log: " + err.Error() + " " + t.Stderr}
	}
	defer f.Close()
	t.Events, err = fsmodel.ParseLog(f)
	if err != nil {
		return nil, &InfraError{"cannot parse strace log: " + err.Error()}
	}
	return t, nil
}

// Load reads a saved trace (replay mode).
func Load(p *prog.Program, logPath, root, ack string) (*Trace, error) {
	f, err := os.Open(logPath)
	if err != nil {
		return nil, err
	}
	defer f.Close()
	evs, err := fsmodel.ParseLog(f)
	if err != nil {
		return nil, err
	}
	return &Trace{Program: p, Root: root, Ack: ack, Events: evs, LogPath: logPath}, nil
}

// OpState is the acknowledgement state of the program's operations at a boundary.
type OpState struct {
	Called   []bool
	Returned []bool
	Result   []string // "ok", "notfound", "err ..."
}

func (s *OpState) InFlight() []int {
	var out []int
	for i := range s.Called {
		if s.Called[i] && !s.Returned[i] {
			out = append(out, i)
		}
	}
	return out
}

func (s *OpState) NumReturned() int {
	n := 0
	for _, r := range s.Returned {
		if r {
			n++
		}
	}
	return n
}

// Boundary is one instant between two system calls.
type Boundary struct {
	Seq     int // number of events applied
	Ops     *OpState
	Last    fsmodel.Applied // what the last applied event did
	LastEv  fsmodel.Event
	Hash    [32]byte
	Preload bool
}

// Walk replays the trace. visit is called after every event that changed the tree or the
// acknowledgement state, once per distinct (image, ack state). preload lets nested runs start from
// a non-empty image. The final image is compared with the real directory when selfCheckDir != "".
func (t *Trace) Walk(preload func(fs *fsmodel.FS) error, selfCheckDir string, only int, visit func(b *Boundary, fs *fsmodel.FS) error) (boundaries int, err error) {
	fs := fsmodel.New(t.Root, t.Ack)
	if preload != nil {
		if err := preload(fs); err != nil {
			return 0, err
		}
	}
	nops := len(t.Program.Ops())
	st := &OpState{Called: make([]bool, nops), Returned: make([]bool, nops), Result: make([]string, nops)}
	seen := map[string]bool{}
	emit := func(seq int, a fsmodel.Applied, ev fsmodel.Event) error {
		if only >= 0 && seq != only {
			return nil
		}
		hs := fs.Hash()
		key := hex.EncodeToString(hs[:8]) + fmt.Sprint(st.Called, st.Returned)
		if seen[key] {
			return nil
		}
		seen[key] = true
		boundaries++
		cp := &OpState{Called: append([]bool{}, st.Called...), Returned: append([]bool{}, st.Returned...), Result: append([]string{}, st.Result...)}
		return visit(&Boundary{Seq: seq, Ops: cp, Last: a, LastEv: ev, Hash: hs}, fs)
	}
	if err := emit(0, fsmodel.Applied{Op: "none"}, fsmodel.Event{}); err != nil {
		return boundaries, err
	}
	for i, ev := range t.Events {
		a, err := fs.Apply(ev)
		if err != nil {
			return boundaries, &InfraError{fmt.Sprintf("log line %d: %v", ev.Line, err)}
		}
		if a.Op == "marker" {
			for _, ln := range strings.Split(strings.TrimSpace(a.Marker), "\n") {
				f := strings.SplitN(ln, " ", 3)
				if len(f) < 2 {
					continue
				}
				idx, perr := strconv.Atoi(f[1])
				if perr != nil || idx < 0 || idx >= nops {
					continue
				}
				switch f[0] {
				case "call":
					st.Called[idx] = true
				case "ret":
					st.Returned[idx] = true
					if len(f) == 3 {
						st.Result[idx] = f[2]
					}
				}
			}
		}
		if t.OnEvent != nil {
			t.OnEvent(a, ev, st)
		}
		if a.Changed || a.Op == "marker" {
			if err := emit(i+1, a, ev); err != nil {
				return boundaries, err
			}
		}
	}
	if selfCheckDir != "" {
		if err := fs.EqualsDir(selfCheckDir); err != nil {
			return boundaries, &InfraError{"emulator self-check failed (final image differs from the real directory): " + err.Error()}
		}
	}
	return boundaries, nil
}

// SaveTrace copies the log next to the replay files and returns its path.
func SaveTrace(id string, t *Trace) string {
	root := os.Getenv("VERIF_ROOT")
	if root == "" {
		root = "/verif"
	}
	dir := filepath.Join(root, "replays")
	_ = os.MkdirAll(dir, 0o755)
	b, err := os.ReadFile(t.LogPath)
	if err != nil {
		return ""
	}
	sum := sha256.Sum256(b)
	dst := filepath.Join(dir, fmt.Sprintf("%s-trace-%s.log", id, hex.EncodeToString(sum[:6])))
	if err := os.WriteFile(dst, b, 0o644); err != nil {
		return ""
	}
	return dst
}
