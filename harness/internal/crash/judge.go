package crash

import (
	"bytes"
	"errors"
	"fmt"
	"os"
	"runtime/debug"
	"sort"
	"strings"
	"verif/internal/names"

	"github.com/thomasjungblut/go-sstables/simpledb"
	"verif/internal/fsmodel"
	"verif/internal/prog"
	"verif/internal/sdb"
)

// RecoveryOpts are the options images are recovered with: compactions off so that recovery is the only actor.
var RecoveryOpts = sdb.Opts{MemLimit: 1 << 20, Threshold: 1000, MaxSize: 1, Ratio: 1, WBuf: 4096, RBuf: 4096}

// OpenError is returned when recovery of an image fails.
type OpenError struct {
	Phase string // open | get | close | reopen | panic
	Err   string
}

func (e *OpenError) Error() string { return e.Phase + ": " + e.Err }

// Class reduces an error text to a stable class for fingerprints.
func (e *OpenError) Class() string {
	s := e.Err
	for _, k := range []string{"error while reading header bytes", "magic number mismatch", "unexpected EOF", "EOF", "checksum", "no such file", "value was nil", "proto", "version mismatch", "is a directory", "not enough bytes", "key was nil", "cannot parse", "invalid"} {
		if strings.Contains(s, k) {
			return strings.ReplaceAll(k, " ", "-")
		}
	}
	return "other"
}

// ReadAll opens the database in dir, reads every key, closes it; with twice it repeats and demands the same content.
func ReadAll(dir string, keys [][]byte, twice bool) (content map[string][]byte, oerr *OpenError) {
	defer func() {
		if r := recover(); r != nil {
			oerr = &OpenError{"panic", fmt.Sprintf("%v\n%s", r, debug.Stack())}
		}
	}()
	rounds := 1
	if twice {
		rounds = 2
	}
	var first map[string][]byte
	for round := 0; round < rounds; round++ {
		phase := "open"
		if round > 0 {
			phase = "reopen"
		}
		db, err := sdb.Open(dir, RecoveryOpts)
		if err != nil {
			return nil, &OpenError{phase, err.Error()}
		}
		got := map[string][]byte{}
		for _, k := range keys {
			v, err := db.GetBytes(k)
			if errors.Is(err, simpledb.ErrNotFound) {
				continue
			}
			if err != nil {
				_ = db.Close()
				return nil, &OpenError{"get", fmt.Sprintf("Get(%x): %v", k, err)}
			}
			got[string(k)] = v
		}
		if err := db.Close(); err != nil {
			return nil, &OpenError{"close", err.Error()}
		}
		if round == 0 {
			first = got
		} else if d := Diff(first, got); d != "" {
			return nil, &OpenError{"reopen", "content changed between the first and the second open of the recovered directory: " + d}
		}
	}
	return first, nil
}

// Diff describes the first difference between two key-value maps ("" when equal).
func Diff(a, b map[string][]byte) string {
	var keys []string
	for k := range a {
		keys = append(keys, k)
	}
	for k := range b {
		if _, ok := a[k]; !ok {
			keys = append(keys, k)
		}
	}
	sort.Strings(keys)
	for _, k := range keys {
		av, aok := a[k]
		bv, bok := b[k]
		switch {
		case aok && !bok:
			return fmt.Sprintf("key %x: %.24q vs not found", k, av)
		case !aok && bok:
			return fmt.Sprintf("key %x: not found vs %.24q", k, bv)
		case !bytes.Equal(av, bv):
			return fmt.Sprintf("key %x: %.24q vs %.24q", k, av, bv)
		}
	}
	return ""
}

// ModelAfter folds the first n operations of the given index list into a map.
func ModelAfter(p *prog.Program, ops []prog.Op, indices []int) map[string][]byte {
	m := map[string][]byte{}
	for _, i := range indices {
		op := ops[i]
		switch op.Kind {
		case "put":
			k, v := p.KeyOf(op.Step), p.ValueOf(op.Step, op.Index)
			if len(k) == 0 || len(v) == 0 {
				continue // rejected by the API
			}
			m[string(k)] = v
		case "delete":
			delete(m, string(p.KeyOf(op.Step)))
		}
	}
	return m
}

// Materialize writes the image into a fresh directory below work and returns it.
func Materialize(fs *fsmodel.FS, work string) (string, error) {
	d, err := os.MkdirTemp(work, "img-")
	if err != nil {
		return "", err
	}
	return d, fs.Materialize(d)
}

// Window classifies a boundary by the protocol it lies in (for labels / the non-triviality rule).
func Window(b *Boundary, ops []prog.Op) string {
	p := b.Last.Path
	inflight := ""
	if fl := b.Ops.InFlight(); len(fl) > 0 {
		inflight = ops[fl[0]].Kind
		if inflight == "open" && ops[fl[0]].Session > 0 {
			inflight = "recovery"
		} else if inflight == "open" {
			inflight = "first-open"
		}
	}
	switch {
	case b.Last.Op == "marker" || b.Last.Op == "none":
		return "between-ops"
	case inflight == "recovery":
		return "recovery"
	case inflight == "close":
		return "shutdown"
	case names.IsCompactionDir(p) || names.IsCompactionDir(b.Last.Path2):
		return "compaction-write"
	case inflight == "compact" || (names.IsTable(p) && (b.Last.Op == "unlink" || b.Last.Op == "rmdir" || b.Last.Op == "rename")):
		return "compaction-install"
	case names.IsTable(p):
		return "flush"
	case p != "" && !names.IsWal(p):
		// anything else below the root that is neither the log nor a compaction directory: a table being built under
		// another name (a flush that writes to a working directory and renames it, say)
		return "flush"
	case names.IsWal(p) && (b.Last.Op == "create" || b.Last.Op == "unlink" || b.Last.Op == "mkdir" || b.Last.Op == "rmdir"):
		return "wal-rotation"
	case names.IsWal(p):
		return "wal-append"
	}
	return "other"
}
