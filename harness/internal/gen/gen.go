// Package gen holds rapid generators shared by the property packages. All randomness in the
// harness flows through rapid so that shrinking and replay work.
package gen

import (
	"bytes"
	"encoding/binary"
	"hash/crc32"
	"sort"
	"sync"

	"pgregory.net/rapid"
)

// Marker is the RecordIO record separator as it appears on disk (uvarint of 0x130691).
var Marker = []byte{0x91, 0x8d, 0x4c}

// Expand deterministically expands a 64-bit value into n pseudo-random (incompressible) bytes.
// It is a pure function, so cases stay small in JSON while payloads can be large.
func Expand(seed uint64, n int) []byte {
	out := make([]byte, n)
	x := seed*0x9E3779B97F4A7C15 + 0x632BE59BD9B4E019
	var w [8]byte
	for i := 0; i < n; i += 8 {
		x ^= x << 13
		x ^= x >> 7
		x ^= x << 17
		binary.LittleEndian.PutUint64(w[:], x)
		copy(out[i:], w[:])
	}
	return out
}

// Blob describes a byte string compactly: either literal bytes or a pattern of a given length.
// Nil=true means the nil slice (distinct from empty).
type Blob struct {
	Nil  bool   `json:"nil,omitempty"`
	Lit  []byte `json:"lit,omitempty"`
	Pat  string `json:"pat,omitempty"` // "", "rand", "zero", "ff", "x91", "marker", "markhdr", "text"
	Len  int    `json:"len,omitempty"`
	Seed uint64 `json:"seed,omitempty"`
	Tail []byte `json:"tail,omitempty"` // appended after the pattern (e.g. 0x91 or 0x91 0x8d)
}

// Bytes materialises the blob.
func (b Blob) Bytes() []byte {
	if b.Nil {
		return nil
	}
	var out []byte
	switch b.Pat {
	case "":
		out = append([]byte{}, b.Lit...)
	case "rand":
		out = Expand(b.Seed, b.Len)
	case "zero":
		out = make([]byte, b.Len)
	case "ff":
		out = bytes.Repeat([]byte{0xff}, b.Len)
	case "x91":
		out = bytes.Repeat([]byte{0x91}, b.Len)
	case "marker":
		out = make([]byte, 0, b.Len)
		for len(out) < b.Len {
			out = append(out, Marker...)
		}
		out = out[:b.Len]
	case "markhdr":
		// a marker followed by something that looks like the start of a record header
		out = Expand(b.Seed, b.Len)
		h := append(append([]byte{}, Marker...), 0x00, byte(b.Seed%200), 0x00)
		if len(out) >= len(h) {
			copy(out[int(b.Seed%uint64(len(out)-len(h)+1)):], h)
		}
	case "markx91", "markff":
		// a marker inside a payload followed by a run of bytes with the continuation bit set:
		// whatever follows the marker does not even parse as varints
		fill := byte(0x91)
		if b.Pat == "markff" {
			fill = 0xff
		}
		out = bytes.Repeat([]byte{fill}, b.Len)
		if len(out) >= len(Marker) {
			copy(out[int(b.Seed%uint64(len(out)-len(Marker)+1)):], Marker)
		}
	case "text":
		out = make([]byte, b.Len)
		for i := range out {
			out[i] = "abcdefghijklmnopqrstuvwxyz "[(uint64(i)*7+b.Seed)%27]
		}
	default:
		panic("unknown blob pattern " + b.Pat)
	}
	if out == nil {
		out = []byte{}
	}
	return append(out, b.Tail...)
}

// BlobOf wraps literal bytes.
func BlobOf(b []byte) Blob {
	if b == nil {
		return Blob{Nil: true}
	}
	return Blob{Lit: b}
}

var patterns = []string{"rand", "zero", "ff", "x91", "marker", "markhdr", "markx91", "markff", "text"}

var tails = [][]byte{nil, nil, nil, {0x91}, {0x91, 0x8d}, {0x91, 0x8d, 0x4c}, {0x00}, {0x80}}

var (
	hdrOnce sync.Once
	hdrLens [3][]int
)

// HeaderBoundaryLengths returns payload lengths (uncompressed records) whose RecordIO v4 record header carries a
// checksum with an unusual varint shape, one list per shape: [0] ending in the septets 0x80 0x01 (the value that is left
// is exactly 0x80 at some step of a varint loop; about one length in two thousand), [1] fewer than five bytes, [2]
// containing the first two marker bytes. Such headers are rare, so they are looked up instead of hoped for. The header
// layout is re-stated here only to find the lengths; if the writer's layout differs they are merely arbitrary lengths.
func HeaderBoundaryLengths() [3][]int {
	hdrOnce.Do(func() {
		tab := crc32.MakeTable(crc32.Castagnoli)
		buf := make([]byte, 64)
		for n := 1; n <= 70000; n++ {
			off := binary.PutUvarint(buf, 0x130691)
			buf[off] = 0
			off++
			off += binary.PutUvarint(buf[off:], uint64(n))
			off += binary.PutUvarint(buf[off:], 0)
			crc := crc32.Checksum(buf[:off], tab)
			cb := binary.AppendUvarint(nil, uint64(crc))
			l := len(cb)
			if l >= 2 && cb[l-1] == 0x01 && cb[l-2] == 0x80 {
				hdrLens[0] = append(hdrLens[0], n)
			}
			if l < 5 && len(hdrLens[1]) < 200 {
				hdrLens[1] = append(hdrLens[1], n)
			}
			if bytes.Contains(cb, []byte{0x91, 0x8d}) {
				hdrLens[2] = append(hdrLens[2], n)
			}
		}
	})
	return hdrLens
}

// BlobGen generates payloads: nil / empty (when allowed), short literals and patterned blobs whose
// lengths cluster around the given interesting sizes (±3).
func BlobGen(allowNil, allowEmpty bool, sizes []int, maxLen int) *rapid.Generator[Blob] {
	return rapid.Custom(func(t *rapid.T) Blob {
		k := rapid.IntRange(0, 9).Draw(t, "blobkind")
		switch {
		case k == 0 && allowNil:
			return Blob{Nil: true}
		case k == 1 && allowEmpty:
			return Blob{Lit: []byte{}}
		case k <= 4:
			n := rapid.IntRange(1, 12).Draw(t, "litlen")
			return Blob{Lit: rapid.SliceOfN(rapid.SampledFrom([]byte{0x00, 0x01, 0x7f, 0x80, 0x91, 0x8d, 0x4c, 0xff, 'a', 'b'}), n, n).Draw(t, "lit")}
		}
		n := 1
		if hb := HeaderBoundaryLengths()[rapid.IntRange(0, 2).Draw(t, "hbclass")]; len(hb) > 0 && hb[0] <= maxLen && rapid.IntRange(0, 9).Draw(t, "hdrboundary") == 0 {
			// a length whose record header checksum has a boundary shape (exactly, no delta)
			k := sort.SearchInts(hb, maxLen+1)
			n = hb[rapid.IntRange(0, k-1).Draw(t, "hb")]
		} else if len(sizes) > 0 && rapid.IntRange(0, 3).Draw(t, "near") > 0 {
			n = rapid.SampledFrom(sizes).Draw(t, "size") + rapid.IntRange(-3, 3).Draw(t, "delta")
		} else {
			n = rapid.IntRange(1, maxLen).Draw(t, "len")
		}
		if n < 1 {
			n = 1
		}
		if n > maxLen {
			n = maxLen
		}
		return Blob{
			Pat:  rapid.SampledFrom(patterns).Draw(t, "pat"),
			Len:  n,
			Seed: rapid.Uint64Range(0, 1<<20).Draw(t, "seed"),
			Tail: rapid.SampledFrom(tails).Draw(t, "tail"),
		}
	})
}

// KeyGen generates adversarial keys (possibly empty when allowEmpty).
func KeyGen(allowEmpty bool, maxLen int) *rapid.Generator[[]byte] {
	alphabet := []byte{0x00, 0x01, 'a', 'b', 'c', 0x7f, 0x80, 0x91, 0x8d, 0x4c, 0xfe, 0xff}
	return rapid.Custom(func(t *rapid.T) []byte {
		k := rapid.IntRange(0, 9).Draw(t, "keykind")
		switch {
		case k == 0 && allowEmpty:
			return []byte{}
		case k <= 5:
			n := rapid.IntRange(1, 4).Draw(t, "klen")
			return rapid.SliceOfN(rapid.SampledFrom(alphabet), n, n).Draw(t, "k")
		case k <= 7:
			// long shared prefix
			n := rapid.IntRange(1, 3).Draw(t, "sfx")
			p := bytes.Repeat([]byte{'p'}, rapid.IntRange(5, min(maxLen, 40)).Draw(t, "plen"))
			return append(p, rapid.SliceOfN(rapid.SampledFrom(alphabet), n, n).Draw(t, "k")...)
		case k == 8:
			return append([]byte{}, Marker...)
		default:
			n := rapid.IntRange(1, maxLen).Draw(t, "longlen")
			return Expand(rapid.Uint64Range(0, 1000).Draw(t, "kseed"), n)
		}
	})
}

// SortedDistinct sorts keys bytewise and removes duplicates.
func SortedDistinct(keys [][]byte) [][]byte {
	sort.Slice(keys, func(i, j int) bool { return bytes.Compare(keys[i], keys[j]) < 0 })
	out := keys[:0]
	for i, k := range keys {
		if i == 0 || !bytes.Equal(k, keys[i-1]) {
			out = append(out, k)
		}
	}
	return out
}

// Probes derives probe keys from a sorted key set: every key, key+0x00, key minus last byte,
// something below the minimum and above the maximum, and the empty key.
func Probes(sorted [][]byte) [][]byte {
	var ps [][]byte
	ps = append(ps, []byte{})
	for _, k := range sorted {
		ps = append(ps, k, append(append([]byte{}, k...), 0x00))
		if len(k) > 0 {
			ps = append(ps, append([]byte{}, k[:len(k)-1]...))
			d := append([]byte{}, k...)
			if d[len(d)-1] > 0 {
				d[len(d)-1]--
				ps = append(ps, d)
			}
			u := append([]byte{}, k...)
			if u[len(u)-1] < 0xff {
				u[len(u)-1]++
				ps = append(ps, u)
			}
		}
	}
	if len(sorted) > 0 {
		last := sorted[len(sorted)-1]
		ps = append(ps, append(append([]byte{}, last...), 0xff, 0xff))
	}
	return SortedDistinct(ps)
}
