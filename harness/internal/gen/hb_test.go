package gen

import "testing"

func TestHeaderBoundaryLengths(t *testing.T) {
	all := HeaderBoundaryLengths()
	t.Log(len(all[0]), len(all[1]), len(all[2]), all[0])
	hb := all[0]
	want := map[int]bool{1112: true, 2115: true, 3146: true, 4213: true}
	for _, n := range hb {
		delete(want, n)
	}
	if len(want) != 0 {
		t.Fatalf("missing %v", want)
	}
}
