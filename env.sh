# source this: offline Go environment for the harness (see DESIGN.md §2.2)
export GOTOOLCHAIN=local GOFLAGS=-mod=mod GOPROXY=off GOSUMDB=off
if [ -x /root/go/pkg/mod/golang.org/toolchain@v0.0.1-go1.25.0.linux-amd64/bin/go ]; then
  export GO=/root/go/pkg/mod/golang.org/toolchain@v0.0.1-go1.25.0.linux-amd64/bin/go
else
  export GO=go1.26.8
fi
