#!/usr/bin/env python3
"""pretty-print a strace -xx log: decode hex strings, shorten data"""
import sys, re
def dec(m):
    b = bytes.fromhex(m.group(1).replace('\\x', ''))
    s = b.decode('latin1')
    if len(s) > 200: s = s[:200] + '...(%d)' % len(b)
    return '"' + ''.join(c if 32 <= ord(c) < 127 else '.' for c in s) + '"'
for l in open(sys.argv[1], errors='replace'):
    if 'fcntl' in l: continue
    print(re.sub(r'"((?:\\x[0-9a-f]{2})*)"', dec, l.rstrip())[:400])
