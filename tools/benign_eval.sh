#!/bin/bash
# usage: tools/benign_eval.sh <ABSOLUTE patch> [ID ...]
# applies a behaviour-preserving patch to /repo, runs the quick checks (all by default), restores /repo and the
# evidence files. Any VIOLATION printed here is a false alarm of the machinery.
set -u
patch=$1; shift
cd /verif
ids=${*:-$(python3 -c "import verifconf; print(' '.join(sorted(verifconf.PROPS)))")}
[ -z "$(git -C /repo status --porcelain)" ] || { echo "/repo is dirty"; exit 3; }
git -C /repo apply "$patch" || { echo "patch does not apply"; exit 3; }
bad=0
for id in $ids; do
  out=$(./check $id --tier quick 2>&1); rc=$?
  echo "$id rc=$rc $(echo "$out" | grep -a 'VIOLATION\|INCONCLUSIVE\|^OK' | tail -1 | cut -c1-220)"
  [ $rc -ne 0 ] && { bad=1; echo "$out" | tail -8 | cut -c1-600; }
done
git -C /repo checkout -- . ; git -C /repo clean -fdq
git checkout -- evidence
exit $bad
