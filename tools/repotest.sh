#!/bin/bash
# runs the pinned suite of /repo (guard off) and prints failures only; exit 1 on any failure
cd /repo && unset GOTOOLCHAIN GOSUMDB GOPROXY
out=$(GOFLAGS=-mod=mod go test -vet=off -count=1 -timeout 25m "$@" ./... 2>&1)
echo "$out" | grep -E "^(FAIL|--- FAIL|panic)" && { echo "$out" | tail -50; exit 1; }
echo "$out" | grep -c "^ok" | sed 's/$/ packages ok/'
git -C /repo status --short
