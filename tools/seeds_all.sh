#!/bin/bash
# re-runs every seeded change against the quick check of its property; prints one line per seed
cd /verif
for d in seeded/*/; do
  s=$(basename $d); id=$(python3 -c "import json,sys; print(json.load(open('$d/meta.json'))['caught_by'].get('check') or '')" 2>/dev/null)
  [ -z "$id" ] && { echo "$s not claimed (see meta.json: outside the property's domain)"; continue; }
  out=$(tools/mutant.sh /verif/$d/patch.diff $id 2>&1); rc=$?
  echo "$s rc=$rc $(echo "$out" | grep -a 'VIOLATION' | head -1 | cut -c1-120)"
done
