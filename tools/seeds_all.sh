#!/bin/bash
# re-runs every seeded change against the quick check of its property; prints one line per seed
cd /verif
for d in seeded/*/; do
  s=$(basename $d); id=${s:0:3}
  out=$(tools/mutant.sh /verif/$d/patch.diff $id 2>&1); rc=$?
  echo "$s rc=$rc $(echo "$out" | grep -a 'VIOLATION' | head -1 | cut -c1-120)"
done
