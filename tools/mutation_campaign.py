#!/usr/bin/env python3
"""Mutation campaign: how many single-site mutants of the anchored source files that survive the repository's own
suite are caught by the quick checks?

  tools/mutation_campaign.py --out DIR [--workers 3] [--per-file 0] [--files a.go b.go ...]

Every worker owns a scratch git worktree of /repo and a private copy of /verif (both below /tmp/mut, removed at the
end), so /repo and /verif themselves are never touched. Results: DIR/results.jsonl (one line per mutant) and
DIR/summary.txt."""
import argparse, glob, json, os, random, shutil, signal, subprocess, sys, threading, time, queue

ROOT = os.path.dirname(os.path.dirname(os.path.abspath(__file__)))
MUTGEN = os.path.join(ROOT, "tools", "mutgen")
BASE = "/tmp/mut"


def sh(cmd, cwd=None, env=None, timeout=None):
    # own process group, killed as a whole on timeout (a mutant may loop forever in a grandchild)
    p = subprocess.Popen(cmd, cwd=cwd, env=env, stdout=subprocess.PIPE, stderr=subprocess.STDOUT, text=True, start_new_session=True)
    try:
        out, _ = p.communicate(timeout=timeout)
        return p.returncode, out
    except subprocess.TimeoutExpired:
        try:
            os.killpg(p.pid, signal.SIGTERM)  # ./check unwinds and kills its shards' process groups
            time.sleep(5)
            os.killpg(p.pid, signal.SIGKILL)
        except ProcessLookupError:
            pass
        out, _ = p.communicate()
        return 124, out or ""


def repo_env():
    env = dict(os.environ)
    for k in ("GOTOOLCHAIN", "GOSUMDB", "GOPROXY"):
        env.pop(k, None)
    env["GOFLAGS"] = "-mod=mod"
    return env


def anchors():
    m = {}
    for line in open(os.path.join(ROOT, "properties.jsonl")):
        p = json.loads(line)
        for pat in p["anchors"]["files"]:
            for f in glob.glob(os.path.join("/repo", pat)):
                rel = os.path.relpath(f, "/repo")
                if rel.endswith("_test.go") or "verif_" in rel or rel.endswith(".pb.go") or not rel.endswith(".go"):
                    continue
                m.setdefault(rel, []).append(p["id"])
    return m


def worker(k, q, results, lock, outdir):
    wdir = os.path.join(BASE, f"w{k}")
    wt, vf = os.path.join(wdir, "repo"), os.path.join(wdir, "verif")
    shutil.rmtree(wdir, ignore_errors=True)
    os.makedirs(wdir)
    sh(["git", "-C", "/repo", "worktree", "add", "--detach", wt, "HEAD"])
    shutil.copytree(ROOT, vf, ignore=shutil.ignore_patterns(".git", ".build", "replays", "__pycache__", "seeded", "benign"))
    # a hanging mutant is confirmed twice (60 s, then 120 s alone) instead of the default 300 s / 600 s
    venv = dict(os.environ, VERIF_REPO=wt, VERIF_CASE_LIMIT_S="60")
    while True:
        try:
            item = q.get_nowait()
        except queue.Empty:
            break
        rel, n, meta, mfile, props = item
        t0 = time.time()
        rec = dict(file=rel, n=n, op=meta["op"], line=meta["line"], desc=meta["desc"], props=props)
        target = os.path.join(wt, rel)
        shutil.copyfile(mfile, target)
        try:
            rc, out = sh(["go", "build", "-tags", "verif", "./..."], cwd=wt, env=repo_env(), timeout=600)
            if rc == 0:
                rc, out = sh(["go", "build", "./..."], cwd=wt, env=repo_env(), timeout=600)
            if rc != 0:
                rec["status"] = "compile-error"
            else:
                rc, out = sh(["go", "test", "-vet=off", "-count=1", "-timeout", "120s", "./..."], cwd=wt, env=repo_env(), timeout=240)
                if rc != 0:
                    rec["status"] = "killed-by-suite"
                else:
                    rec["status"] = "survived"
                    rec["checks"] = {}
                    for pid in props:
                        rc, out = sh(["./check", pid, "--tier", "quick"], cwd=vf, env=venv, timeout=420)
                        line = [l for l in out.splitlines() if l.startswith(("VIOLATION", "INCONCLUSIVE", "OK ", "shard", "fuzz:"))]
                        rec["checks"][pid] = dict(rc=rc, line=(line[0][:300] if line else out[-300:]))
                        if rc == 1:
                            rec["status"] = "caught"
                            rec["caught_by"] = pid
                            break
                    shutil.rmtree(os.path.join(vf, "replays"), ignore_errors=True)
        finally:
            sh(["git", "-C", wt, "checkout", "--", "."])
            sh(["git", "-C", wt, "clean", "-fdq"])
        rec["seconds"] = round(time.time() - t0, 1)
        with lock:
            results.append(rec)
            with open(os.path.join(outdir, "results.jsonl"), "a") as f:
                f.write(json.dumps(rec) + "\n")
    sh(["git", "-C", "/repo", "worktree", "remove", "--force", wt])
    shutil.rmtree(wdir, ignore_errors=True)


def main():
    ap = argparse.ArgumentParser()
    ap.add_argument("--out", required=True)
    ap.add_argument("--workers", type=int, default=3)
    ap.add_argument("--per-file", type=int, default=0, help="sample at most this many mutants per file (0 = all)")
    ap.add_argument("--seed", type=int, default=1)
    ap.add_argument("--files", nargs="*")
    ap.add_argument("--second-pass", action="store_true",
                    help="re-run the mutants that survived the first pass against the checks of every property whose code lives in the same package (results2.jsonl)")
    a = ap.parse_args()
    if a.second_pass:
        return second_pass(a)
    os.makedirs(a.out, exist_ok=True)
    done = set()
    rp = os.path.join(a.out, "results.jsonl")
    if os.path.exists(rp):
        for l in open(rp):
            r = json.loads(l)
            done.add((r["file"], r["n"]))
    amap = anchors()
    files = a.files or sorted(amap)
    mg = os.path.join(BASE, "mutgen.bin")
    os.makedirs(BASE, exist_ok=True)
    genv = dict(os.environ, GOFLAGS="-mod=mod", GOPROXY="off", GOSUMDB="off", GOTOOLCHAIN="local")
    rc, out = sh(["go", "build", "-o", mg, "."], cwd=MUTGEN, env=genv)
    if rc != 0:
        print(out)
        return 2
    rnd = random.Random(a.seed)
    q = queue.Queue()
    total = 0
    mdir = os.path.join(BASE, "mutants")
    shutil.rmtree(mdir, ignore_errors=True)
    for rel in files:
        od = os.path.join(mdir, rel.replace("/", "__"))
        rc, out = sh([mg, os.path.join("/repo", rel), od])
        metas = [json.loads(l) for l in out.splitlines() if l.startswith("{")]
        if a.per_file and len(metas) > a.per_file:
            metas = rnd.sample(metas, a.per_file)
        for m in metas:
            if (rel, m["n"]) in done:
                continue
            q.put((rel, m["n"], m, os.path.join(od, f"{m['n']}.go"), amap.get(rel, [])))
            total += 1
    print(f"{total} mutants queued over {len(files)} files", flush=True)
    results, lock = [], threading.Lock()
    ths = [threading.Thread(target=worker, args=(k, q, results, lock, a.out)) for k in range(a.workers)]
    for t in ths:
        t.start()
    for t in ths:
        t.join()
    sh(["git", "-C", "/repo", "worktree", "prune"])
    shutil.rmtree(BASE, ignore_errors=True)
    summarize(a.out)


PKG_PROPS = {
    "recordio": ["C04", "C12", "C07", "C11", "C19", "C09", "C02", "C20", "C15", "C03", "C13", "C18"],
    "sstables": ["C03", "C08", "C09", "C15", "C11", "C19", "C18", "C06", "C01", "C02"],
    "simpledb": ["C01", "C17", "C02", "C05", "C06", "C10", "C11", "C13", "C19", "C18"],
    "memstore": ["C14", "C01", "C17", "C11"],
    "skiplist": ["C16", "C14", "C08", "C03", "C11"],
    "pq": ["C16", "C08", "C11", "C06"],
    "wal": ["C07", "C11", "C02", "C13", "C10", "C19", "C17"],
    "kaitai": ["C20"],
}


def second_pass(a):
    first = [json.loads(l) for l in open(os.path.join(a.out, "results.jsonl"))]
    surv = [r for r in first if r["status"] == "survived" and not r["file"].startswith("kaitai/")]
    done = set()
    rp = os.path.join(a.out, "results2.jsonl")
    if os.path.exists(rp):
        done = {(json.loads(l)["file"], json.loads(l)["n"]) for l in open(rp)}
    mg = os.path.join(BASE, "mutgen.bin")
    os.makedirs(BASE, exist_ok=True)
    genv = dict(os.environ, GOFLAGS="-mod=mod", GOPROXY="off", GOSUMDB="off", GOTOOLCHAIN="local")
    rc, out = sh(["go", "build", "-o", mg, "."], cwd=MUTGEN, env=genv)
    mdir = os.path.join(BASE, "mutants")
    q = queue.Queue()
    gen = set()
    for r in surv:
        if (r["file"], r["n"]) in done:
            continue
        od = os.path.join(mdir, r["file"].replace("/", "__"))
        if r["file"] not in gen:
            sh([mg, os.path.join("/repo", r["file"]), od])
            gen.add(r["file"])
        extra = [p for p in PKG_PROPS.get(r["file"].split("/")[0], []) if p not in r.get("checks", {})]
        q.put((r["file"], r["n"], dict(op=r["op"], line=r["line"], desc=r["desc"]), os.path.join(od, f"{r['n']}.go"), extra))
    print(f"second pass: {q.qsize()} surviving mutants", flush=True)
    out2 = os.path.join(a.out, "second")
    os.makedirs(out2, exist_ok=True)
    results, lock = [], threading.Lock()
    ths = [threading.Thread(target=worker, args=(k, q, results, lock, out2)) for k in range(a.workers)]
    for t in ths:
        t.start()
    for t in ths:
        t.join()
    sh(["git", "-C", "/repo", "worktree", "prune"])
    shutil.rmtree(BASE, ignore_errors=True)
    if os.path.exists(os.path.join(out2, "results.jsonl")):
        with open(rp, "a") as f:
            f.write(open(os.path.join(out2, "results.jsonl")).read())
        shutil.rmtree(out2, ignore_errors=True)
    return 0


def summarize(out):
    rs = [json.loads(l) for l in open(os.path.join(out, "results.jsonl"))]
    rp2 = os.path.join(out, "results2.jsonl")
    if os.path.exists(rp2):
        second = {(r["file"], r["n"]): r for r in map(json.loads, open(rp2))}
        for r in rs:
            r2 = second.get((r["file"], r["n"]))
            if r2 and r["status"] == "survived":
                r.setdefault("checks", {}).update(r2.get("checks", {}))
                r["props"] = r["props"] + [p for p in r2.get("props", []) if p not in r["props"]]
                if r2["status"] == "caught":
                    r["status"], r["caught_by"] = "caught", r2["caught_by"]
    by = {}
    for r in rs:
        by[r["status"]] = by.get(r["status"], 0) + 1
    lines = [f"mutants: {len(rs)}  " + "  ".join(f"{k}: {v}" for k, v in sorted(by.items()))]
    alive = by.get("caught", 0) + by.get("survived", 0)
    if alive:
        lines.append(f"of the {alive} mutants that compile and pass the repository's suite, the quick checks catch {by.get('caught', 0)} ({100.0 * by.get('caught', 0) / alive:.1f} %)")
    lines.append("")
    lines.append("not caught (each needs a look: equivalent mutant, outside every listed property, or a blind spot):")
    for r in sorted(rs, key=lambda r: (r["file"], r["line"])):
        if r["status"] == "survived":
            inc = [p for p, c in r.get("checks", {}).items() if c["rc"] == 2]
            lines.append(f"  {r['file']}:{r['line']} [{r['op']}] {r['desc']}  (checks run: {','.join(r['props'])}{'; inconclusive: ' + ','.join(inc) if inc else ''})")
    open(os.path.join(out, "summary.txt"), "w").write("\n".join(lines) + "\n")
    print("\n".join(lines[:3]))


if __name__ == "__main__":
    if len(sys.argv) == 3 and sys.argv[1] == "--summarize":
        summarize(sys.argv[2])
    else:
        sys.exit(main())
