#!/bin/bash
# re-runs every quick check on the current tree with the default seed so that the committed evidence
# files describe exactly what `./check <ID> --tier quick` does from a fresh restore
cd /verif; rc=0
for id in $(python3 -c "import verifconf; print(' '.join(sorted(verifconf.PROPS)))"); do
  ./check $id --tier quick | tail -1 | cut -c1-200 || rc=1
done
exit $rc
