#!/bin/bash
# usage: tools/mutant.sh <patch-file> <ID> [extra check args]
# applies a patch to /repo, runs the quick check, restores /repo and the evidence file.
set -u
patch=$1; id=$2; shift 2
cd /verif
[ -z "$(git -C /repo status --porcelain)" ] || { echo "/repo is dirty"; exit 3; }
cp evidence/$id.json /dev/shm/ev.$id.$$ 2>/dev/null
git -C /repo apply "$patch" || { echo "patch does not apply"; exit 3; }
./check $id "$@"; rc=$?
git -C /repo checkout -- . ; git -C /repo clean -fdq
[ -f /dev/shm/ev.$id.$$ ] && mv /dev/shm/ev.$id.$$ evidence/$id.json
echo "mutant rc=$rc"
exit $rc
