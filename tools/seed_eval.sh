#!/bin/bash
# usage: tools/seed_eval.sh <ID> <pkgdir-for-demo> [go test extra args, e.g. "-tags verif" or "-race"]
# verifies a seeded change produced in /tmp/wt-<ID>/_out, then runs the quick check against it.
set -u
id=$1; pkg=$2; shift 2; extra="$*"
wt=${WT:-/tmp/wt-$id}; out=$wt/_out
export GOFLAGS=-mod=mod; unset GOTOOLCHAIN GOSUMDB GOPROXY
cd $wt || exit 3
git checkout -q -- . ; git clean -fdq -e _out
res=/verif/seeded/${OUTID:-$id}; mkdir -p $res
cp $out/patch.diff $res/patch.diff; cp $out/README.md $res/README.agent.md 2>/dev/null
demo=$(ls $out/demo*_test.go 2>/dev/null | head -1)
[ -n "$demo" ] && cp $demo $res/
git apply --check $out/patch.diff || { echo "PATCH DOES NOT APPLY"; exit 3; }
git apply $out/patch.diff
suite=$(go test -vet=off -count=1 ./... 2>&1 | grep -E "^(FAIL|--- FAIL|panic:)" | head -5)
[ -z "$suite" ] && suite_ok=true || suite_ok=false
echo "suite with change: ok=$suite_ok $suite"
cp $demo $pkg/zz_demo_test.go
with=$(go test -vet=off -count=1 $extra -run "${RUNPAT:-Demo|demo|TestC[0-9]}" ./$pkg 2>&1 | tail -3 | tr '\n' ' ')
echo "$with" | grep -q "^ok\|	ok\|^ok " && with_fail=false || with_fail=true
echo "$with" | grep -q "FAIL" && with_fail=true
echo "demo WITH change: fails=$with_fail :: ${with:0:300}"
rm $pkg/zz_demo_test.go; git checkout -q -- . ; cp $demo $pkg/zz_demo_test.go
without=$(go test -vet=off -count=1 $extra -run "${RUNPAT:-Demo|demo|TestC[0-9]}" ./$pkg 2>&1 | tail -3 | tr '\n' ' ')
echo "$without" | grep -q "FAIL" && without_pass=false || without_pass=true
echo "demo WITHOUT change: passes=$without_pass :: ${without:0:200}"
rm $pkg/zz_demo_test.go; git checkout -q -- . ; git clean -fdq -e _out
cd /verif
chk=$(tools/mutant.sh $res/patch.diff $id 2>&1 | tail -4)
echo "$chk" | grep -q "mutant rc=1" && caught=true || caught=false
echo "check $id on the change: caught=$caught"; echo "$chk" | grep -a "VIOLATION\|shard\|INCONCLUSIVE\|OK property" | cut -c1-400
cat > $res/meta.auto.json <<J
{"property": "$id", "suite_passes_with_change": $suite_ok, "demo_fails_with_change": $with_fail, "demo_passes_without_change": $without_pass, "demo_package_dir": "$pkg", "demo_go_test_args": "$extra", "quick_check_catches": $caught}
J
rm -rf /verif/replays
