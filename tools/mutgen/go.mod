module mutgen

go 1.23
