// mutgen writes single-site mutants of one Go source file (mutation testing of the checks in /verif).
//
//	mutgen <file.go> <outdir>
//
// For every mutation site it writes <outdir>/<n>.go (the whole mutated file) and prints one JSON line
// {"n":..,"op":..,"line":..,"desc":..}. Operators: relational/logical/arithmetic operator swaps, negated if
// conditions, error results replaced by nil in returns, deleted call / assignment / inc-dec / defer statements,
// break<->continue, integer literal +1.
package main

import (
	"bytes"
	"encoding/json"
	"fmt"
	"go/ast"
	"go/format"
	"go/parser"
	"go/token"
	"os"
	"path/filepath"
	"strconv"
	"strings"
)

type site struct {
	op, desc string
	pos      token.Pos
	apply    func()
	undo     func()
}

func main() {
	if len(os.Args) != 3 {
		fmt.Fprintln(os.Stderr, "usage: mutgen file.go outdir")
		os.Exit(2)
	}
	src, err := os.ReadFile(os.Args[1])
	if err != nil {
		panic(err)
	}
	fset := token.NewFileSet()
	f, err := parser.ParseFile(fset, os.Args[1], src, parser.ParseComments)
	if err != nil {
		panic(err)
	}
	var sites []site
	swap := map[token.Token]token.Token{
		token.LSS: token.LEQ, token.LEQ: token.LSS, token.GTR: token.GEQ, token.GEQ: token.GTR,
		token.EQL: token.NEQ, token.NEQ: token.EQL, token.LAND: token.LOR, token.LOR: token.LAND,
		token.ADD: token.SUB, token.SUB: token.ADD,
	}
	exprStr := func(n ast.Node) string {
		var b bytes.Buffer
		_ = format.Node(&b, fset, n)
		s := strings.Join(strings.Fields(b.String()), " ")
		if len(s) > 90 {
			s = s[:90] + "…"
		}
		return s
	}
	// statement lists, for deletions
	var visitList func(list *[]ast.Stmt)
	visitList = func(list *[]ast.Stmt) {
		for i := range *list {
			i := i
			st := (*list)[i]
			del := false
			kind := ""
			switch s := st.(type) {
			case *ast.ExprStmt:
				if _, ok := s.X.(*ast.CallExpr); ok {
					del, kind = true, "call"
				}
			case *ast.AssignStmt:
				if s.Tok != token.DEFINE {
					del, kind = true, "assignment"
				}
			case *ast.IncDecStmt:
				del, kind = true, "incdec"
			case *ast.DeferStmt:
				del, kind = true, "defer"
			}
			if del {
				orig := st
				sites = append(sites, site{op: "delete-" + kind, desc: "delete: " + exprStr(st), pos: st.Pos(),
					apply: func() { (*list)[i] = &ast.EmptyStmt{Semicolon: orig.Pos()} },
					undo:  func() { (*list)[i] = orig }})
			}
		}
	}
	ast.Inspect(f, func(n ast.Node) bool {
		switch x := n.(type) {
		case *ast.BlockStmt:
			visitList(&x.List)
		case *ast.CaseClause:
			visitList(&x.Body)
		case *ast.CommClause:
			visitList(&x.Body)
		case *ast.BinaryExpr:
			if to, ok := swap[x.Op]; ok {
				if x.Op == token.ADD || x.Op == token.SUB {
					// skip obvious string concatenation
					if bl, ok := x.X.(*ast.BasicLit); ok && bl.Kind == token.STRING {
						return true
					}
					if bl, ok := x.Y.(*ast.BasicLit); ok && bl.Kind == token.STRING {
						return true
					}
				}
				from := x.Op
				sites = append(sites, site{op: "binop", desc: fmt.Sprintf("%s -> %s in: %s", from, to, exprStr(x)), pos: x.OpPos,
					apply: func() { x.Op = to }, undo: func() { x.Op = from }})
			}
		case *ast.IfStmt:
			orig := x.Cond
			sites = append(sites, site{op: "negate-if", desc: "negate condition: " + exprStr(orig), pos: x.Cond.Pos(),
				apply: func() { x.Cond = &ast.UnaryExpr{Op: token.NOT, X: &ast.ParenExpr{X: orig}} },
				undo:  func() { x.Cond = orig }})
		case *ast.ReturnStmt:
			for i, r := range x.Results {
				i := i
				id, ok := r.(*ast.Ident)
				if !ok {
					continue
				}
				ln := strings.ToLower(id.Name)
				if ln == "err" || strings.HasSuffix(ln, "err") {
					orig := x.Results[i]
					sites = append(sites, site{op: "return-nil-error", desc: "return nil instead of " + id.Name + " in: " + exprStr(x), pos: r.Pos(),
						apply: func() { x.Results[i] = ast.NewIdent("nil") }, undo: func() { x.Results[i] = orig }})
				}
			}
		case *ast.BranchStmt:
			if x.Label == nil && (x.Tok == token.BREAK || x.Tok == token.CONTINUE) {
				from := x.Tok
				to := token.BREAK
				if from == token.BREAK {
					to = token.CONTINUE
				}
				sites = append(sites, site{op: "branch", desc: from.String() + " -> " + to.String(), pos: x.Pos(),
					apply: func() { x.Tok = to }, undo: func() { x.Tok = from }})
			}
		case *ast.BasicLit:
			if x.Kind == token.INT {
				if v, err := strconv.ParseInt(x.Value, 0, 64); err == nil && v >= 0 && v < 1<<20 {
					orig := x.Value
					nv := strconv.FormatInt(v+1, 10)
					sites = append(sites, site{op: "int-plus-one", desc: orig + " -> " + nv, pos: x.Pos(),
						apply: func() { x.Value = nv }, undo: func() { x.Value = orig }})
				}
			}
		case *ast.GenDecl:
			if x.Tok == token.CONST || x.Tok == token.IMPORT || x.Tok == token.TYPE {
				return false // constants, array sizes in types: too noisy
			}
		}
		return true
	})
	if err := os.MkdirAll(os.Args[2], 0o755); err != nil {
		panic(err)
	}
	enc := json.NewEncoder(os.Stdout)
	n := 0
	for _, s := range sites {
		s.apply()
		var b bytes.Buffer
		err := format.Node(&b, fset, f)
		s.undo()
		if err != nil || bytes.Equal(b.Bytes(), src) {
			continue
		}
		if err := os.WriteFile(filepath.Join(os.Args[2], strconv.Itoa(n)+".go"), b.Bytes(), 0o644); err != nil {
			panic(err)
		}
		_ = enc.Encode(map[string]any{"n": n, "op": s.op, "line": fset.Position(s.pos).Line, "desc": s.desc})
		n++
	}
}
